"""C22  Immutable share storage semantics  (Engine H: BFS over ALL operation histories).

System under test: a real StorageServer + FoolscapStorageServer (remote_* API, canaries) on
tmpfs with the virtual reactor as clock (vt/lib_storage.py).  Universe: 2 storage indexes
(A, B: same 2-character prefix directory in one configuration, different prefixes in the
other) x 2 share numbers, allocated size 4.

Operations (every one enabled in a state is tried from every reachable state):
  alloc(si, shnums in {[0],[1],[0,1]}, connection c in {0,1})   remote_allocate_buckets; the
        lease secrets depend on c, so re-allocating a completed share over the other connection
        ADDS a lease (the file grows) and over the same one renews it; a second alloc while the
        first upload is in progress is just this operation in such a state
  write(si, sh, offset 0..3, length 1..3 with offset+length <= 5, source P|Q)
        data = source[offset:offset+length]; P and Q are two 5-byte strings that differ at
        every position and have 5 distinct bytes each (VERIF_SEED picks the values), so ranges
        are arbitrary / out of order / overlapping with equal (same source) or different (other
        source) bytes, and offset+length = 5 overflows the allocated size by one
  close(si, sh) / abort(si, sh)       on the in-progress writer
  advance(1800)                       30 virtual minutes: BucketWriter timeout timers fire
  advance(1000)                       (second root only) partial idle time
  disc(c)                             the connection's canary fires its disconnect watchers
Reads and listing are OBSERVATIONS, made in every reached state: remote_get_buckets(si) for both
storage indexes, read(offset 0..5, length 0..5) on every listed share (36 reads each), the raw
incoming/final files, allocated_size(), _bucket_writers; the tree digest before and after the
observation must be equal (so an observation is not a transition and needs no history slot).

Oracle = reference dict {(si,sh): absent | in-progress(pos->byte) | complete(pos->byte)} stepped
alongside; it demands only what the statement says:
  * listed by get_buckets / reported as alreadygot / present at the final path  <=>  closed
  * read(o,l) of a complete share has length max(0,min(l,4-o)) and every WRITTEN position holds
    the byte written (holes: any byte, counted)
  * write overlapping written data with a different byte must raise and the stored bytes (raw
    incoming file) must not change; a non-conflicting in-range write must be accepted;
    an overflowing write may raise (state unchanged) or be accepted (both counted)
  * after abort / timeout (idle >= 1800 s) / disconnect: no file at the incoming or the final
    path, allocated_size() no larger than size x (uploads in progress)
  * an idle time < 1800 s may or may not time a writer out (statement silent): the model follows
    what the implementation did and counts it.

Overflow probes (outside the BFS, shares of 4 and 100 bytes): every (prefix written, offset, length) of a grid
with offset+length > allocated size - ending 1 byte .. more than a lease record past it, starting inside, at and
beyond the end -: the write is refused or accepted, then the share is completed and closed; a read must return
exactly the allocated size and the bytes written in range.

Canonical state for de-duplication (taken from the IMPLEMENTATION, not the model): the complete
file/directory tree under shares/ with the 4-byte lease expiry fields zeroed; for every entry of
StorageServer._bucket_writers its path, closed flag, max size, _already_written ranges and the
time left on its timer; the (writer -> connection) disconnect registrations; every pending timer
of the reactor; which connections were used; plus the model's per-share status.  Why merged
states have the same futures: the server's behaviour under this alphabet is a function of the
disk tree, of _bucket_writers (each BucketWriter's own fields are exactly the ones listed), of
the FoolscapStorageServer marker table and the canaries' watcher lists, and of time only through
the pending timers' remaining delays.  The only things dropped are the absolute clock value and
the lease expiry values; no branch of allocate/write/close/abort/read depends on them (a renewal
compares expiry values but only rewrites that same field).  Latency statistics lists are write-only.
"""
import os

from .. import common, hbfs, boot
from .. import lib_storage as L

from allmydata.interfaces import ConflictingWriteError, DataTooLargeError

LEVEL = "model_checking"
ASSUMPTIONS = [
    "2 storage indexes x 2 share numbers, allocated size 4, payload alphabets P/Q; histories up to the depth reported in coverage.max_depth (BFS, complete to that depth for the stated alphabet); silent about longer histories and larger shares",
    "zero-length writes are not issued (the RangeMap shim and the real collections_extended may differ on empty ranges)",
    "operations on writers that are already closed/aborted are not issued (the statement is silent about them)",
    "the exact idle time after which a writer times out is taken from the implementation except that >= 1800 s idle must time out",
    "connections (canaries) are harness objects following foolscap's notifyOnDisconnect contract; no real network",
]

SIZE = 4
SIS = {
    "same-prefix": [b"\xab\x40" + b"A" * 14, b"\xab\x7f" + b"B" * 14],
    "diff-prefix": [b"\xab\x40" + b"A" * 14, b"\x12\x34" + b"B" * 14],
}
NAMES = "AB"
SECRETS = [(b"r0" * 16, b"k0" * 16), (b"r1" * 16, b"k1" * 16)]
RANGES = [(o, l) for o in range(4) for l in range(1, 4) if o + l <= SIZE + 1]
# reduced write alphabet of the 4-share "interaction" roots: fill 0..2, a write that conflicts with
# it at position 2, the completing byte, and an overflowing write
SMALL_WRITES = [(0, 3, "P"), (2, 2, "Q"), (3, 1, "P"), (3, 2, "Q")]


def payloads(seed):
    P = bytes(0x61 + (seed * 7 + p) % 26 for p in range(SIZE + 1))
    Q = bytes(0x41 + (seed * 5 + p) % 26 for p in range(SIZE + 1))
    return {"P": P, "Q": Q}


class World(object):
    def __init__(self, cfg, box):
        self.cfg, self.box = cfg, box
        self.sis = SIS[cfg["sis"]][:cfg.get("nsi", 2)]
        self.shs = list(range(cfg.get("nsh", 2)))
        self.shsets = [[sh] for sh in self.shs] + ([self.shs] if len(self.shs) > 1 else [])
        self.wr = [(o, l, s) for (o, l) in RANGES for s in ("P", "Q")] if cfg.get("writes", "full") == "full" else SMALL_WRITES
        self.pay = payloads(cfg.get("seed", 0))
        self.can = [L.Canary("c0"), L.Canary("c1")]
        self.can_used = [False, False]
        self.m = {}          # (i, sh) -> {"st": "inc"|"fin", "w": {pos: byte}, "can": c, "act": t}
        self.gone = {}       # (i, sh) -> cause of the last removal
        self.writers = {}    # (i, sh) -> FoolscapBucketWriter of the in-progress upload
        self.viols = []
        self.last_rejected = None
        self.stats = {}

    def bad(self, sig, msg):
        self.viols.append((sig, msg))

    def note(self, k):
        self.stats[k] = self.stats.get(k, 0) + 1

    def nm(self, key):
        return "%s/%d" % (NAMES[key[0]], key[1])

    # ------------------------------------------------------------------ operations
    def step(self, op):
        self.last_rejected = None
        kind = op[0]
        getattr(self, "op_" + kind)(*op[1:])

    def op_alloc(self, i, shnums, c):
        si = self.sis[i]
        renew, cancel = SECRETS[c]
        self.can_used[c] = True
        finals = set(sh for (j, sh), v in self.m.items() if j == i and v["st"] == "fin")
        want = [sh for sh in shnums if (i, sh) not in self.m]
        try:
            already, writers = self.box.fss.remote_allocate_buckets(si, renew, cancel, list(shnums), SIZE, self.can[c])
        except Exception as e:  # noqa
            self.bad("allocate-raised:" + L.exc_name(e), "allocate_buckets(%s,%r) raised %r; model %s" % (NAMES[i], shnums, e, self.show()))
            return
        already = set(already)
        if already - finals:
            self.bad("visible-before-close:alreadygot", "allocate_buckets(%s,%r) reports shares %r as already present; complete shares are %r; model %s"
                     % (NAMES[i], shnums, sorted(already), sorted(finals), self.show()))
        if finals - already:
            self.bad("completed-share-not-listed:alreadygot", "allocate_buckets(%s,%r) alreadygot=%r but complete shares are %r" % (NAMES[i], shnums, sorted(already), sorted(finals)))
        got = set(writers)
        if got - set(want):
            self.bad("writer-granted-for-existing-share", "allocate_buckets(%s,%r) returned writers %r; only %r are absent; model %s" % (NAMES[i], shnums, sorted(got), want, self.show()))
        if set(want) - got:
            cause = [self.gone.get((i, sh)) for sh in sorted(set(want) - got)]
            self.bad("allocate-refused-with-free-space", "allocate_buckets(%s,%r) returned writers %r, expected %r (disk is not limited); earlier removal cause of the refused shares: %r; model %s"
                     % (NAMES[i], shnums, sorted(got), want, cause, self.show()))
        for sh in sorted(got & set(want)):
            self.m[(i, sh)] = {"st": "inc", "w": {}, "can": c, "act": L.now()}
            self.writers[(i, sh)] = writers[sh]
            self.gone.pop((i, sh), None)

    def op_write(self, i, sh, off, ln, src):
        key = (i, sh)
        ent = self.m[key]
        data = self.pay[src][off:off + ln]
        end = off + ln
        conflict = [p for p in range(off, end) if p in ent["w"] and ent["w"][p] != data[p - off]]
        overflow = end > SIZE
        ent["act"] = L.now()
        exc = None
        try:
            self.writers[key].remote_write(off, data)
        except Exception as e:  # noqa
            exc = e
        desc = "write(%s, offset=%d, %r) on written=%s" % (self.nm(key), off, data, self.showw(ent["w"]))
        if conflict:
            if exc is None:
                self.bad("conflicting-write-accepted", "%s: position(s) %r already hold different bytes, but the write was accepted" % (desc, conflict))
                for p in range(off, min(end, SIZE)):
                    ent["w"][p] = data[p - off]   # unknown what is stored now; observation will tell
            else:
                self.note("conflict-rejected:" + L.exc_name(exc))
                self.last_rejected = key
                if not isinstance(exc, (ConflictingWriteError, DataTooLargeError)):
                    self.note("conflict-rejected-with-unexpected-exception")
        elif overflow:
            if exc is None:
                self.note("overflow-accepted")
                for p in range(off, SIZE):
                    ent["w"][p] = data[p - off]
            else:
                self.note("overflow-rejected:" + L.exc_name(exc))
                self.last_rejected = key
        else:
            if exc is not None:
                self.bad("write-refused:" + L.exc_name(exc), "%s: in range and not conflicting with written bytes, but raised %r" % (desc, exc))
            else:
                self.note("write-ok-overlap-same" if any(p in ent["w"] for p in range(off, end)) else "write-ok")
                for p in range(off, end):
                    ent["w"][p] = data[p - off]

    def op_close(self, i, sh):
        key = (i, sh)
        try:
            self.writers[key].remote_close()
        except Exception as e:  # noqa
            self.bad("close-raised:" + L.exc_name(e), "close(%s) raised %r; model %s" % (self.nm(key), e, self.show()))
        self.m[key]["st"] = "fin"
        del self.writers[key]

    def _remove(self, key, cause):
        del self.m[key]
        self.writers.pop(key, None)
        self.gone[key] = cause

    def op_abort(self, i, sh):
        key = (i, sh)
        try:
            self.writers[key].remote_abort()
        except Exception as e:  # noqa
            self.bad("abort-raised:" + L.exc_name(e), "abort(%s) raised %r; model %s" % (self.nm(key), e, self.show()))
        self._remove(key, "abort")

    def op_advance(self, secs):
        try:
            boot.R.advance(secs)
        except Exception as e:  # noqa
            self.bad("timer-callback-raised:" + L.exc_name(e), "advancing the clock by %d s: a timer callback raised %r; model %s" % (secs, e, self.show()))
        for key in sorted(self.writers):
            ent = self.m[key]
            idle = L.now() - ent["act"]
            closed = self.writers[key]._bucket_writer.closed
            if idle >= 1800 and not closed:
                self.bad("timeout-not-fired", "%s idle for %d s (>= 30 min) but its BucketWriter is still open; model %s" % (self.nm(key), idle, self.show()))
            if closed:
                self.note("timed-out" if idle >= 1800 else "timed-out-early")
                self._remove(key, "timeout")
            else:
                self.note("survived-advance")

    def op_disc(self, c):
        errs = self.can[c].disconnect()
        if errs:
            self.bad("disconnect-callback-raised:" + L.exc_name(errs[0]), "disconnect of connection %d: watcher raised %r; model %s" % (c, errs[0], self.show()))
        for key in sorted(self.writers):
            if self.m[key]["can"] == c:
                self._remove(key, "disconnect")
        self.can[c] = L.Canary("c%d" % c)
        self.can_used[c] = False

    # ------------------------------------------------------------------ observation
    def observe(self):
        box = self.box
        t1 = box.share_tree()      # everything under shares/ (incoming/ included); keys relative to shares/
        ss = box.ss
        srel = lambda path: os.path.relpath(path, box.sharedir)  # noqa
        for i in range(len(self.sis)):
            for sh in self.shs:
                key = (i, sh)
                inc = srel(box.incoming_path(self.sis[i], sh))
                fin = srel(box.final_path(self.sis[i], sh))
                in_inc, in_fin = t1.get(inc) is not None, t1.get(fin) is not None
                ent = self.m.get(key)
                if ent is None:
                    cause = self.gone.get(key, "never-allocated")
                    if in_fin:
                        self.bad("share-left-behind-after-%s:final" % cause, "%s (%s) has a file at its final path %s; model %s" % (self.nm(key), cause, fin, self.show()))
                    if in_inc:
                        self.bad("share-left-behind-after-%s:incoming" % cause, "%s (%s) still has a file in incoming/: %s; model %s" % (self.nm(key), cause, inc, self.show()))
                elif ent["st"] == "inc":
                    if in_fin:
                        self.bad("visible-before-close:final-path", "%s is still being uploaded but exists at its final path; model %s" % (self.nm(key), self.show()))
                    if not in_inc:
                        self.bad("in-progress-upload-lost", "%s is being uploaded but its incoming file is gone; model %s" % (self.nm(key), self.show()))
                    else:
                        data = L.parse_immutable(t1[inc])["data"]
                        wrong = [p for p, b in sorted(ent["w"].items()) if data[p:p + 1] != bytes([b])]
                        if wrong:
                            sig = "rejected-write-changed-stored-data" if self.last_rejected == key else "in-progress-data-wrong"
                            self.bad(sig, "%s incoming data region %r but written bytes are %s (positions %r differ)" % (self.nm(key), data, self.showw(ent["w"]), wrong))
                else:
                    if not in_fin:
                        self.bad("completed-share-missing", "%s was closed but has no file at %s; model %s" % (self.nm(key), fin, self.show()))
                    if in_inc:
                        self.bad("incoming-left-after-close", "%s was closed but still has %s" % (self.nm(key), inc))
        nreads = 0
        for i in range(len(self.sis)):
            finals = set(sh for (j, sh), v in self.m.items() if j == i and v["st"] == "fin")
            try:
                readers = self.box.fss.remote_get_buckets(self.sis[i])
            except Exception as e:  # noqa
                self.bad("get_buckets-raised:" + L.exc_name(e), "get_buckets(%s) raised %r; model %s" % (NAMES[i], e, self.show()))
                continue
            listed = set(readers)
            if listed - finals:
                self.bad("visible-before-close:get_buckets", "get_buckets(%s) lists %r; complete shares are %r; model %s" % (NAMES[i], sorted(listed), sorted(finals), self.show()))
            if finals - listed:
                self.bad("completed-share-not-listed:get_buckets", "get_buckets(%s) lists %r; complete shares are %r; model %s" % (NAMES[i], sorted(listed), sorted(finals), self.show()))
            for sh in sorted(listed & finals):
                w = self.m[(i, sh)]["w"]
                for off in range(SIZE + 2):
                    for ln in range(SIZE + 2):
                        nreads += 1
                        try:
                            got = readers[sh].remote_read(off, ln)
                        except Exception as e:  # noqa
                            self.bad("read-raised:" + L.exc_name(e), "read(%s/%d, %d, %d) raised %r" % (NAMES[i], sh, off, ln, e))
                            continue
                        want_len = max(0, min(ln, SIZE - off))
                        if len(got) > want_len:
                            self.bad("read-not-clipped", "read(%s/%d, offset=%d, length=%d) returned %d bytes %r; allocated size %d allows %d; written %s"
                                     % (NAMES[i], sh, off, ln, len(got), got, SIZE, want_len, self.showw(w)))
                        elif len(got) < want_len:
                            self.bad("read-short", "read(%s/%d, offset=%d, length=%d) returned %r, expected %d bytes; written %s" % (NAMES[i], sh, off, ln, got, want_len, self.showw(w)))
                        else:
                            for k in range(want_len):
                                p = off + k
                                if p in w:
                                    if got[k] != w[p]:
                                        self.bad("read-wrong-bytes", "read(%s/%d, offset=%d, length=%d) = %r but position %d was written as %r; written %s"
                                                 % (NAMES[i], sh, off, ln, got, p, bytes([w[p]]), self.showw(w)))
                                        break
                                else:
                                    self.note("hole-reads-zero" if got[k] == 0 else "hole-reads-nonzero")
        self.nreads = nreads
        live = len(self.writers)
        try:
            alloc = ss.allocated_size()
        except Exception as e:  # noqa
            alloc = None
            self.bad("allocated_size-raised:" + L.exc_name(e), repr(e))
        if alloc is not None:
            if alloc > SIZE * live:
                # whose reservation is it?  The statement covers aborted / timed-out / disconnected
                # uploads; a reservation kept after a successful close is C28's subject: counted here.
                blamed = []
                for path in sorted(ss._bucket_writers):
                    for i in range(len(self.sis)):
                        for sh in self.shs:
                            if path == box.incoming_path(self.sis[i], sh):
                                ent = self.m.get((i, sh))
                                if ent is None:
                                    blamed.append(((i, sh), self.gone.get((i, sh), "?")))
                                elif ent["st"] == "fin":
                                    self.note("reservation-kept-after-close")
                kept = sum(1 for path in ss._bucket_writers
                           if any(path == box.incoming_path(self.sis[k[0]], k[1]) and v["st"] == "fin" for k, v in self.m.items()))
                if blamed or alloc > SIZE * (live + kept):
                    cause = blamed[0][1] if blamed else "unknown"
                    self.bad("reservation-not-released-after-" + cause, "allocated_size()=%d but %d upload(s) in progress (x %d bytes); reservations still held for removed uploads %r; _bucket_writers=%r; model %s"
                             % (alloc, live, SIZE, [(self.nm(k), c) for k, c in blamed], sorted(box.rel(p) for p in ss._bucket_writers), self.show()))
            elif alloc < SIZE * live:
                self.note("reservation-smaller-than-in-progress")
        t2 = box.share_tree()
        if t2 != t1:
            diff = sorted(k for k in set(t1) | set(t2) if t1.get(k, 0) != t2.get(k, 0))
            self.bad("read-changed-disk", "get_buckets/read changed the storage directory: %r" % diff)
        self._tree = t2

    # ------------------------------------------------------------------ canonical state
    def canon(self):
        box = self.box
        files = []
        for k, v in sorted(self._tree.items()):
            if v is not None and len(v) >= 12:
                p = L.parse_immutable(v)
                v = (v[:8], p["nleases"], p["data"], tuple(r[:-4] for r in p["leases"]))
            files.append((k, v))
        bws = []
        for path, bw in sorted(box.ss._bucket_writers.items()):
            rem = None
            try:
                if bw._timeout.active():
                    rem = round(bw._timeout.getTime() - L.now(), 3)
            except Exception:  # noqa
                rem = "?"
            bws.append((box.rel(path), bool(bw.closed), bw._max_size, tuple((r[0], r[1]) for r in bw._already_written.ranges()), rem))
        marks = sorted((box.rel(bw.incominghome), getattr(c, "name", "?")) for bw, (c, m) in box.fss._bucket_writer_disconnect_markers.items())
        watch = tuple(len(c.watchers) for c in self.can)
        model = tuple(sorted((k, v["st"], v["can"]) for k, v in self.m.items()))
        return (self.cfg["name"], tuple(files), tuple(bws), tuple(marks), watch,
                tuple(L.pending_timers()), tuple(self.can_used), model)

    def enabled(self):
        ops = []
        for i in range(len(self.sis)):
            for shnums in self.shsets:
                for c in range(2):
                    ops.append(["alloc", i, shnums, c])
        for (i, sh) in sorted(self.writers):
            for (o, l, src) in self.wr:
                ops.append(["write", i, sh, o, l, src])
            ops.append(["close", i, sh])
            ops.append(["abort", i, sh])
        ops.append(["advance", 1800])
        if self.cfg.get("tick"):
            ops.append(["advance", 1000])
        for c in range(2):
            if self.can_used[c]:
                ops.append(["disc", c])
        return ops

    def showw(self, w):
        return "".join(chr(w[p]) if p in w else "_" for p in range(SIZE))

    def show(self):
        return "{" + ", ".join("%s:%s[%s]c%d" % (self.nm(k), v["st"], self.showw(v["w"]), v["can"]) for k, v in sorted(self.m.items())) + "}"


# ------------------------------------------------------------------ overflow probes (bigger shares)
def overflow_cases():
    """(size, in-range prefix length, offset, length) with offset+length > size: writes that end past the allocated
    size by 1 byte .. more than a lease record, starting inside, at and beyond the end"""
    out = []
    for size in (4, 100):
        for pre in sorted(set([0, size // 2, size - 1])):
            for off in sorted(set([0, 1, pre, size // 2, size - 10, size - 1, size, size + 1, size + 80])):
                if off < 0:
                    continue
                for ln in sorted(set([1, 2, 8, 12, 13, 30, size - 1, size, size + 1, size + 80, 200])):
                    if ln >= 1 and off + ln > size:
                        out.append([size, pre, off, ln])
    return out


def overflow_probe(case):
    """allocate `size` bytes, write the first `pre` bytes, then ONE write that would end past the allocated size,
    then (whatever the answer) complete the share with in-range writes and close it.  Returns observations:
    accepted (bool), length of read(0, 10*size+500), bytes at the written positions, lease view."""
    size, pre, off, ln = case
    box = L.Box()
    try:
        si = SIS["same-prefix"][0]
        renew, cancel = SECRETS[0]
        data = bytes((7 * i + 3) % 251 for i in range(size))
        junk = bytes((5 * i + 11) % 251 for i in range(ln))
        already, writers = box.fss.remote_allocate_buckets(si, renew, cancel, [0], size, L.Canary("c0"))
        w = writers[0]
        from allmydata.storage.immutable import ShareFile

        def lease_view(path):
            return [(l.owner_num, l.get_expiration_time(), l.is_renew_secret(renew), l.is_cancel_secret(cancel)) for l in ShareFile(path).get_leases()]
        baseline = lease_view(box.incoming_path(si, 0))      # the uploader's lease as written at allocation
        if pre:
            w.remote_write(0, data[:pre])
        inside = max(0, min(size, off + ln) - off) if off < size else 0
        # the in-range part of the overflowing write carries the share's own bytes, the rest is junk
        blob = (data[off:off + inside] + junk[inside:]) if inside else junk
        try:
            w.remote_write(off, blob)
            accepted = True
        except Exception as e:  # noqa
            accepted = L.exc_name(e)
        # complete and close
        err = None
        try:
            w.remote_write(pre, data[pre:])
            w.remote_close()
        except Exception as e:  # noqa
            err = L.exc_name(e)
        obs = {"accepted": accepted, "complete_error": err}
        readers = box.fss.remote_get_buckets(si)
        if 0 in readers:
            got = readers[0].remote_read(0, 10 * size + 500)
            obs["read_len"] = len(got)
            obs["read_ok"] = got[:size] == data
        else:
            obs["read_len"] = None
        try:
            leases = lease_view(box.final_path(si, 0))
            obs["leases"] = len(leases)
            obs["lease_ok"] = len(baseline) == 1 and baseline[0][2] and baseline[0][3] and leases == baseline
        except Exception as e:  # noqa
            obs["leases"] = "unreadable:" + L.exc_name(e)
            obs["lease_ok"] = False
        return obs
    finally:
        box.close()


def _overflow_chunk(chunk):
    res = common.Result()
    for case in chunk:
        obs = overflow_probe(case)
        res.count("overflow_probes")
        res.count("overflow:" + ("accepted" if obs["accepted"] is True else "rejected:" + str(obs["accepted"])))
        size = case[0]
        where = "share of %d bytes, first %d written, then write(offset=%d, %d bytes) [accepted: %r]" % (case[0], case[1], case[2], case[3], obs["accepted"])
        if obs["read_len"] is None:
            if obs["complete_error"] is None:
                res.violation("overflow:share-missing-after-close", {"overflow": case}, "%s: the share was completed and closed but is not listed" % where)
        else:
            if obs["read_len"] != size:
                res.violation("overflow:read-not-clipped-at-allocated-size", {"overflow": case}, "%s: after completion read(0, big) returns %d bytes, allocated size %d" % (where, obs["read_len"], size))
            elif not obs["read_ok"]:
                res.violation("overflow:stored-bytes-differ-from-written", {"overflow": case}, "%s: the completed share does not read back the bytes written in range" % where)
    return res


def run_history(hist):
    """hist[0] = ["cfg", {...}], then operations.  Returns (canon, viols, ops, world-stats)."""
    cfg = hist[0][1]
    box = L.Box()
    try:
        w = World(cfg, box)
        for op in hist[1:]:
            w.step(op)
        w.observe()
        canon = w.canon()
        ops = w.enabled()
        outcome = (tuple(sorted(w.stats)), w.show())
        return canon, list(w.viols), ops, w, outcome
    finally:
        box.close()


_STATS_PATH = [None]


def bfs_replay(hist):
    canon, viols, ops, w, outcome = run_history(hist)
    # outcome statistics cannot ride on the canonical form (it would break de-duplication):
    # they go to a side file on tmpfs, one short O_APPEND line per replay.
    if _STATS_PATH[0]:
        with open(_STATS_PATH[0], "a") as f:
            f.write("%d %s\n" % (w.nreads, " ".join(sorted(w.stats))))
    return canon, viols, ops


def replay(case):
    if "overflow" in case:
        r = _overflow_chunk([case["overflow"]])
        return [(v["sig"], v["msg"]) for v in r.violations]
    return run_history(case["history"])[1]


def roots_for(tier, seed):
    one = {"name": "one-share-closure", "sis": "same-prefix", "nsi": 1, "nsh": 1, "writes": "full", "tick": True, "seed": seed}
    inter = {"name": "4-shares", "sis": "same-prefix", "nsi": 2, "nsh": 2, "writes": "small", "tick": False, "seed": seed}
    inter2 = {"name": "4-shares-other-prefix-partial-idle", "sis": "diff-prefix", "nsi": 2, "nsh": 2, "writes": "small", "tick": True, "seed": seed}
    full = {"name": "4-shares-full-writes", "sis": "same-prefix", "nsi": 2, "nsh": 2, "writes": "full", "tick": False, "seed": seed}
    if tier == "quick":
        return [(one, 40), (inter, 4), (full, 2)]
    return [(one, 40), (inter, 6), (inter2, 6), (full, 4)]


def run(tier, seed):
    plan = roots_for(tier, seed)
    if os.environ.get("VERIF_C22_PLAN"):   # e.g. "0:40,1:3" for experiments
        plan = [(plan[int(a)][0], int(b)) for a, b in (x.split(":") for x in os.environ["VERIF_C22_PLAN"].split(","))]
    path = "/dev/shm/vt-c22-stats-%d" % os.getpid()
    if os.path.exists(path):
        os.remove(path)
    _STATS_PATH[0] = path
    try:
        res = common.Result()
        per_root = []
        for cfg, depth in plan:
            r = hbfs.explore(bfs_replay, depth, roots=[[["cfg", cfg]]])
            per_root.append({"root": cfg["name"], "max_history_length": r.notes.get("max_depth", 0), "bound": depth,
                             "closed": r.notes.get("max_depth", 0) < depth,
                             "states": r.counts.get("states", 0), "transitions": r.counts.get("transitions", 0)})
            st = res.counts.get("states", 0) + r.counts.get("states", 0)
            res.merge(r)
            res.counts["states"] = st
        res.merge(common.pmap(_overflow_chunk, overflow_cases()))
        reads = 0
        kinds = {}
        if os.path.exists(path):
            with open(path) as f:
                for line in f:
                    parts = line.split()
                    reads += int(parts[0])
                    for k in parts[1:]:
                        kinds[k] = kinds.get(k, 0) + 1
    finally:
        _STATS_PATH[0] = None
        if os.path.exists(path):
            os.remove(path)
    for k, v in sorted(kinds.items()):
        res.counts["histories-with:" + k] = v
    res.counts["reads"] = reads
    cov = {
        "states": res.counts.get("states", 0),
        "transitions": res.counts.get("transitions", 0),
        "traces_validated_against_impl": res.counts.get("transitions", 0),
        "max_depth": max(p["max_history_length"] for p in per_root),
        "roots": per_root,
        "reads_compared": reads,
        "distinct_outcome_kinds": len(kinds),
        "capped": bool(res.notes.get("capped")),
        "rule": "BFS over all histories of alloc/write/close/abort/advance/disc (alphabet in the module docstring) from the empty server, "
                "per root configuration (coverage.roots: one share with the full write alphabet explored to CLOSURE = no new canonical state; 4 shares with the reduced and the full write alphabet to the stated history length); "
                "every history replayed on a fresh real StorageServer; states de-duplicated on the implementation's disk tree + _bucket_writers + timers; each transition is followed by get_buckets on every storage index and all 36 reads of every listed share",
    }
    return res, cov


MANIFEST = {
    "engine": "H",
    "technique": "explicit-state BFS over allocate/write/close/abort/timeout/disconnect histories on a real StorageServer with virtual clock and harness canaries, reference dict stepped alongside, exhaustive reads and listings in every reached state",
    "text": "One share with the full write alphabet (every offset/length incl. overflow, two payloads that differ everywhere) is explored to closure; 2 storage indexes x 2 share numbers are explored to the stated history length with a reduced and with the full write alphabet. After every transition get_buckets, all 36 (offset, length) reads of every listed share, the raw incoming/final files and allocated_size() are compared with the reference: visible iff closed, written bytes exact and clipped, conflicting writes rejected without changing stored bytes, aborted/timed-out/disconnected uploads leave no file and no reservation. Outside the BFS, overflow probes on 4- and 100-byte shares: a write ending 1 byte .. beyond a lease record past the allocated size is refused or accepted, the share completed, and reads must be clipped at the allocated size with the in-range bytes intact.",
    "note": "4-share roots are depth-bounded (evidence roots). Holes read back as any byte. Exact timeout instant follows the implementation except that 30 idle minutes must time out. Reservation kept after a successful close is counted here and flagged by C28. Every transition is a fresh replay on the real code.",
}
