"""C40  Web API byte-range downloads follow RFC 7233  (Engine E, exhaustive grid).

Space: EVERY file size 0..40 (thorough 0..300) x EVERY header of a catalogue built around the
boundaries of that size:
  * bytes=a-b, bytes=a-, bytes=-n for all a, b, n in V(size) = {0,1,2,3, size//2, size-2..size+2,
    2*size-1..2*size+1, 10**20, a 30-digit number}  (incl. b < a); for size <= 12 (thorough <= 40)
    additionally ALL a, b, n in 0..size+2 (complete small square),
  * two-range lists: all ordered pairs of 11 boundary specs, with ',' / ', ' / ' , ' separators,
  * a catalogue of ~70 headers outside the RFC 7233 grammar (signs, underscores, inner blanks,
    non-ASCII digits, non-OWS blanks, other units, missing parts, undecodable bytes, ...) and of
    lenient-but-arguable ones (unit in another case, empty list elements, OWS at the edges),
    each instantiated at 3 (a, b) positions,
  * no Range header at all,
each as GET and as HEAD, through two real entry points: FileDownloader(node, name).render(req) and
FileNodeHandler(None, node).render(req) (which builds the FileDownloader itself), with a real
allmydata.webish.TahoeLAFSRequest on a twisted DummyChannel (the way allmydata.test.common_web
does); the response is parsed back from the bytes written to the transport.
The node is a stub IFileNode-like object whose read(consumer, offset, size) writes the slice.

Oracle (written for this check, strict RFC 7233 grammar): for ONE grammatical byte-range
  206 + Content-Range 'bytes f-l/size' + exactly data[f:l+1] + Content-Length  when first < size,
  416 when the range starts at or beyond the end (incl. every int-range on an empty file),
  200 + whole file when the header is not in the grammar / other unit / last < first;
where the RFC (or the statement) leaves a choice every conformant alternative is accepted:
  suffix-length 0, suffix range on an empty file  -> 416 or 200 (never 206: no valid Content-Range exists),
  unit spelled in another case, empty list elements, blanks at the list edges -> strict result or 200,
  several ranges -> 200, or 206 for any ONE requested satisfiable range, or 416 if none is satisfiable
  (multipart/byteranges would be counted as unchecked; 416 although another listed range is
  satisfiable is outside the statement and only counted).
HEAD must give the same status and the same content-length / content-range / content-type /
accept-ranges as GET, and no body.

NOT covered here (other module): the same requests over real literal/CHK/SDMF/MDMF nodes on a grid.
"""
import re

from .. import boot
from .. import common

from twisted.internet import defer
from twisted.web.test.requesthelper import DummyChannel
from allmydata.webish import TahoeLAFSRequest
from allmydata.web.filenode import FileDownloader, FileNodeHandler

LEVEL = "exploration"
ASSUMPTIONS = [
    "file sizes 0..40 (quick) / 0..300 (thorough); the code under test only compares and subtracts offsets, no size-dependent branch beyond size 0/1 (by inspection)",
    "stub file node: read(consumer, offset, size) delivers data[offset:offset+size] (size None = to the end) in <= 2 writes; real literal/CHK/SDMF/MDMF nodes on a grid are NOT exercised by this module",
    "request object = real TahoeLAFSRequest over twisted's DummyChannel, resource rendered directly (no HTTP parser in front: header values reach the code byte-for-byte)",
    "multi-range requests and the lenient header forms are outside the statement: any RFC-conformant alternative is accepted",
]

BIG = 10 ** 20
HUGE = 10 ** 29 + 7


# ------------------------------------------------------------------ stub node
class StubNode(object):
    def __init__(self, data, mutable=False):
        self.data = data
        self.mutable = mutable
        self.reads = []

    def get_size(self):
        return len(self.data)

    def is_mutable(self):
        return self.mutable

    def is_readonly(self):
        return True

    def get_storage_index(self):
        return None

    def get_best_readable_version(self):
        return defer.succeed(self)

    def read(self, consumer, offset=0, size=None):
        self.reads.append((offset, size))
        if size is None:
            size = len(self.data) - offset
        piece = self.data[offset:offset + size]
        consumer.registerProducer(self, True)
        half = len(piece) // 2
        if half:
            consumer.write(piece[:half])
        consumer.write(piece[half:])
        consumer.unregisterProducer()
        return defer.succeed(consumer)

    def resumeProducing(self):
        pass

    def pauseProducing(self):
        pass

    def stopProducing(self):
        pass


def make_data(size, seed):
    return bytes((37 * i + 11 * seed + 1) % 256 for i in range(size))


# ------------------------------------------------------------------ driving the real code
_GRID = {}


def grid_request(data, method, header, via):
    """the same request against a REAL node (literal / CHK / SDMF / MDMF) on a virtual grid, through the
    real HTTP parser and Root resource (vt.lib_web)"""
    from .. import grid as _grid, lib_web, lib_mut
    from allmydata.immutable.upload import Data
    from allmydata.mutable.publish import MutableData
    if "g" not in _GRID:
        _GRID["g"] = _grid.Grid(3, client_kw=dict(k=2, n=3, happy=2, max_segment_size=32))
        _GRID["w"] = lib_web.Web(_GRID["g"])
        _GRID["caps"] = {}
    g, w = _GRID["g"], _GRID["w"]
    kind = via.split(":")[1]
    key = (kind, bytes(data))
    if key not in _GRID["caps"]:
        c = g.clients[0]
        if kind in ("lit", "chk"):
            b = g.wait(c.upload(Data(data, convergence=b"c40")))
            cap = b[0][1].get_uri()
        else:
            b = lib_mut.create(g, kind.upper(), data)
            cap = b[0][1].get_uri()
        g.quiesce()
        _GRID["caps"][key] = cap.decode()
    cap = _GRID["caps"][key]
    from urllib.parse import quote
    hs = {} if header is None else {"Range": header}
    r = w.request(method.decode(), "/uri/" + quote(cap, safe=""), b"", hs)
    g.quiesce()
    boot.R.take_errors()
    boot.take_logged()
    if r is None:
        return {"exception": "hang: no response"}
    if r[0] == 0:
        return {"exception": "malformed response %r" % (r[2][:60],)}
    return {"status": r[0], "headers": r[1], "body": r[2], "reads": None}


def request(data, method, header, via):
    """-> dict(status, headers{lower-name: [values]}, body, finished, reads) or {'exception': repr}"""
    if via.startswith("grid:"):
        return grid_request(data, method, header, via)
    ch = DummyChannel()
    req = TahoeLAFSRequest(ch)
    req.method = method
    req.uri = req.path = b"/file/stub/@@named=/f.bin"
    req.args = {}
    req.clientproto = b"HTTP/1.1"
    req.prepath = [b""]
    req.postpath = []
    if header is not None:
        req.requestHeaders.setRawHeaders(b"range", [header])
    node = StubNode(data)
    if via == "downloader":
        res = FileDownloader(node, b"f.bin")
    else:
        res = FileNodeHandler(None, node, None, "f.bin")
    try:
        r = res.render(req)
        if isinstance(r, bytes):
            req.write(r)
            req.finish()
        boot.R.pump_until_idle()
    except Exception as e:  # noqa
        return {"exception": "%s: %s" % (type(e).__name__, e)}
    raw = ch.transport.written.getvalue()
    if not req.finished or b"\r\n\r\n" not in raw:
        return {"exception": "request not finished (finished=%r, %d bytes written)" % (req.finished, len(raw))}
    head, body = raw.split(b"\r\n\r\n", 1)
    lines = head.split(b"\r\n")
    status = int(lines[0].split(b" ")[1])
    headers = {}
    for ln in lines[1:]:
        k, v = ln.split(b": ", 1)
        headers.setdefault(k.decode("latin-1").lower(), []).append(v.decode("latin-1"))
    if headers.get("transfer-encoding") == ["chunked"]:
        body = dechunk(body)
    return {"status": status, "headers": headers, "body": body, "reads": node.reads}


def dechunk(b):
    out = b""
    while b:
        ln, _, b = b.partition(b"\r\n")
        n = int(ln, 16)
        if n == 0:
            break
        out += b[:n]
        b = b[n + 2:]
    return out


# ------------------------------------------------------------------ strict RFC 7233 reference
_INT_RANGE = re.compile(r"\A([0-9]+)-([0-9]*)\Z")
_SUFFIX = re.compile(r"\A-([0-9]+)\Z")
OWS = " \t"


def strict_parse(header):
    """header: bytes.  -> ("ignore", why)  or  ("ranges", [spec], lenient_flags)
    spec = ("int", first, last_or_None) | ("suffix", n)"""
    try:
        s = header.decode("ascii")
    except UnicodeDecodeError:
        return ("ignore", "non-ascii")
    if "=" not in s:
        return ("ignore", "no-equals")
    unit, rest = s.split("=", 1)
    if unit.lower() != "bytes":
        return ("ignore", "other-unit")
    lenient = set()
    if unit != "bytes":
        lenient.add("unit-case")
    elems = rest.split(",")
    specs = []
    for i, e in enumerate(elems):
        core = e.strip(OWS)
        if core == "":
            lenient.add("empty-element")
            continue
        lead = e[:len(e) - len(e.lstrip(OWS))]
        trail = e[len(e.rstrip(OWS)):]
        if (i == 0 and lead) or (i == len(elems) - 1 and trail):
            lenient.add("edge-ows")
        m = _INT_RANGE.match(core)
        if m:
            specs.append(("int", int(m.group(1)), int(m.group(2)) if m.group(2) else None))
            continue
        m = _SUFFIX.match(core)
        if m:
            specs.append(("suffix", int(m.group(1))))
            continue
        return ("ignore", "bad-spec")
    if not specs:
        return ("ignore", "no-spec")
    return ("ranges", specs, lenient)


def resolve(spec, size):
    """-> ("invalid",) | ("unsat", soft) | ("part", first, last)"""
    if spec[0] == "int":
        _, first, last = spec
        if last is not None and last < first:
            return ("invalid",)
        if first >= size:
            return ("unsat", False)
        return ("part", first, size - 1 if last is None else min(last, size - 1))
    n = spec[1]
    if n == 0 or size == 0:
        return ("unsat", True)      # RFC: no representable 206; 416 (statement) or 200 (RFC 'MAY ignore')
    return ("part", max(0, size - n), size - 1)


FULL, UNSAT = ("full",), ("unsat",)


def expected(header, size):
    """-> (set of acceptable outcomes, why-string, single:bool)"""
    if header is None:
        return {FULL}, "no Range header", False
    p = strict_parse(header)
    if p[0] == "ignore":
        return {FULL}, "not in the RFC 7233 grammar (%s): must be ignored" % p[1], False
    _, specs, lenient = p
    acc = set()
    if lenient:
        acc.add(FULL)
    if len(specs) == 1:
        r = resolve(specs[0], size)
        if r[0] == "invalid":
            acc.add(FULL)
            why = "last-byte-pos < first-byte-pos: invalid spec, header ignored"
        elif r[0] == "unsat":
            acc.add(UNSAT)
            if r[1]:
                acc.add(FULL)
                why = "suffix range with nothing to select: 416 (or 200), no 206 is expressible"
            else:
                why = "first-byte-pos >= size: 416"
        else:
            acc.add(r)
            why = "single satisfiable range %d-%d" % (r[1], r[2])
        if lenient:
            why += " (lenient form %s: 200 also accepted)" % ",".join(sorted(lenient))
        return acc, why, not lenient
    acc.add(FULL)
    rs = [resolve(sp, size) for sp in specs]
    parts = [r for r in rs if r[0] == "part"]
    for r in parts:
        acc.add(r)
    if not parts:
        acc.add(UNSAT)
    return acc, "multi-range: 200, or 206 for one requested satisfiable range%s" % ("" if parts else ", or 416 (none satisfiable)"), False


def classify_nongrammar(header):
    try:
        s = header.decode("utf-8")
    except UnicodeDecodeError:
        return "undecodable"
    if "+" in s:
        return "plus-sign"
    if "_" in s:
        return "underscore"
    if re.search(r"[0-9]--[0-9]", s):
        return "minus-sign"
    if any((not c.isascii()) and c.isdigit() for c in s):
        return "non-ascii-digit"
    if any(c.isspace() and c not in OWS for c in s):
        return "non-ows-whitespace"
    body = s.split("=", 1)[1] if "=" in s else s
    for e in body.split(","):
        if any(c in OWS for c in e.strip(OWS)):
            return "inner-whitespace"
    if s.split("=", 1)[0] != s.split("=", 1)[0].strip():
        return "blank-in-unit"
    return "other"


_CR = re.compile(r"\Abytes ([0-9]+)-([0-9]+)/([0-9]+)\Z")


def observe(resp, data):
    """-> (outcome, problems[list of (sigpart, text)])"""
    size = len(data)
    st = resp["status"]
    h = resp["headers"]
    body = resp["body"]
    cl = h.get("content-length")
    cr = h.get("content-range")
    probs = []
    if st == 200:
        if cr:
            probs.append(("200-with-content-range", "200 response carries Content-Range %r" % cr))
        if body != data:
            probs.append(("200-wrong-body", "200 body is %d bytes %r..., file is %d bytes" % (len(body), body[:20], size)))
        if cl != [str(size)]:
            probs.append(("200-wrong-content-length", "Content-Length %r for a %d-byte file" % (cl, size)))
        return FULL, probs
    if st == 206:
        if (h.get("content-type") or [""])[0].lower().startswith("multipart/byteranges"):
            return ("multipart",), probs
        m = _CR.match(cr[0]) if cr and len(cr) == 1 else None
        if not m:
            return ("206-bad-content-range", repr(cr)), probs
        f, l, total = int(m.group(1)), int(m.group(2)), int(m.group(3))
        if not (f <= l < size) or total != size:
            return ("206-bad-content-range", cr[0]), probs
        if body != data[f:l + 1]:
            probs.append(("206-wrong-body", "Content-Range %s but body %r != data[%d:%d]" % (cr[0], body[:40], f, l + 1)))
        if cl != [str(l - f + 1)]:
            probs.append(("206-wrong-content-length", "Content-Range %s but Content-Length %r" % (cr[0], cl)))
        return ("part", f, l), probs
    if st == 416:
        return UNSAT, probs
    return ("status", st), probs


def head_consistent(get, head):
    bad = []
    if head["status"] != get["status"]:
        bad.append("status GET %d / HEAD %d" % (get["status"], head["status"]))
    if head["body"] != b"":
        bad.append("HEAD has a %d-byte body" % len(head["body"]))
    for k in ("content-range", "content-type", "accept-ranges", "content-encoding"):
        if get["headers"].get(k) != head["headers"].get(k):
            bad.append("%s GET %r / HEAD %r" % (k, get["headers"].get(k), head["headers"].get(k)))
    if "content-length" in get["headers"] and get["headers"]["content-length"] != head["headers"].get("content-length"):
        bad.append("content-length GET %r / HEAD %r" % (get["headers"].get("content-length"), head["headers"].get("content-length")))
    return bad


def fmt_outcome(o):
    if o == FULL:
        return "200+whole file"
    if o == UNSAT:
        return "416"
    if o[0] == "part":
        return "206 bytes %d-%d" % (o[1], o[2])
    return repr(o)


def spec_form(header):
    p = strict_parse(header)
    if p[0] != "ranges" or len(p[1]) != 1:
        return "other"
    sp = p[1][0]
    if sp[0] == "suffix":
        return "suffix"
    return "open-ended" if sp[2] is None else "closed"


def check_case(case):
    """case = {size, header (bytes|None), seed, via}; -> (violations, info)"""
    size, header, via = case["size"], case["header"], case["via"]
    data = make_data(size, case.get("seed", 0))
    acc, why, single = expected(header, size)
    out = []
    hd = "no Range header" if header is None else "Range: %r" % (header,)
    ctx = "size=%d %s via=%s" % (size, hd, via)
    get = request(data, b"GET", header, via)
    head = request(data, b"HEAD", header, via)
    info = {"expected": sorted(fmt_outcome(a) for a in acc), "single": single}
    for name, r in (("GET", get), ("HEAD", head)):
        if "exception" in r:
            out.append(("exception:" + r["exception"].split(":")[0], "%s %s raised/hung: %s" % (name, ctx, r["exception"])))
    if out:
        return out, info
    obs, probs = observe(get, data)
    info["observed"] = fmt_outcome(obs)
    info["status"] = get["status"]
    for sigpart, text in probs:
        out.append((sigpart, "%s: %s" % (ctx, text)))
    if obs not in acc:
        want = " or ".join(sorted(fmt_outcome(a) for a in acc))
        if obs[0] == "multipart":
            info["multipart"] = True
        elif obs == UNSAT and not single and FULL in acc and strict_parse(header)[0] == "ranges" and len(strict_parse(header)[1]) > 1:
            info["multi_416_though_satisfiable"] = True     # outside the statement: counted only
        else:
            if obs[0] == "status":
                sig = "error-status-%d:%s" % (obs[1], classify_nongrammar(header))
            elif acc == {FULL}:
                p = strict_parse(header)
                if p[0] == "ignore":
                    sig = "nongrammar-header-honoured:" + classify_nongrammar(header)
                else:
                    sig = "invalid-range-honoured"
            elif obs[0] == "206-bad-content-range":
                if size == 0:
                    sig = "range-on-empty-file-gives-206"
                else:
                    sig = "206-bad-content-range"
            elif obs == FULL and UNSAT in acc and FULL not in acc:
                sig = "unsatisfiable-%s-range-gives-200" % spec_form(header)
            elif obs == FULL:
                sig = "valid-range-ignored"
            elif obs == UNSAT:
                sig = "satisfiable-range-gives-416"
            elif obs[0] == "part":
                sig = "wrong-range-served"
            else:
                sig = "unexpected-outcome"
            out.append((sig, "%s: expected %s [%s]; observed %s (status %d, Content-Range %r, Content-Length %r, body %r)"
                        % (ctx, want, why, fmt_outcome(obs), get["status"], get["headers"].get("content-range"),
                           get["headers"].get("content-length"), get["body"][:40])))
    hb = head_consistent(get, head)
    if hb and get["status"] < 500:
        out.append(("head-differs-from-get", "%s: %s" % (ctx, "; ".join(hb))))
    return out, info


# ------------------------------------------------------------------ header catalogue
def values(size):
    v = {0, 1, 2, 3, size // 2, size - 2, size - 1, size, size + 1, size + 2, 2 * size - 1, 2 * size, 2 * size + 1, BIG, HUGE}
    return sorted(x for x in v if x >= 0)


def b(s):
    return s.encode("utf-8") if isinstance(s, str) else s


def catalogue(size, full_square):
    """-> ordered list of distinct header values (bytes or None)"""
    hs = [None]
    V = values(size)
    if full_square:
        V = sorted(set(V) | set(range(size + 3)))
    for a in V:
        hs.append(b("bytes=%d-" % a))
        hs.append(b("bytes=-%d" % a))
        for c in V:
            hs.append(b("bytes=%d-%d" % (a, c)))
    two = ["0-0", "1-2", "%d-" % max(size - 1, 0), "%d-" % size, "%d-%d" % (size + 1, size + 5), "-1", "-0",
           "-%d" % (size + 1), "2-1", "0-%d" % (size + 3), "%d-%d" % (size // 2, size // 2 + 1)]
    for i, x in enumerate(two):
        for j, y in enumerate(two):
            hs.append(b("bytes=%s,%s" % (x, y)))
            if (i + j) % 3 == 0:
                hs.append(b("bytes=%s, %s" % (x, y)))
            if (i + j) % 3 == 1:
                hs.append(b("bytes=%s , %s" % (x, y)))
    hs.append(b("bytes=0-0,1-1,2-2"))
    hs.append(b("bytes=%d-,%d-,0-0" % (size, size + 1)))
    for (a, c) in ((0, 0), (1, 2), (max(size - 1, 0), size)):
        A, C = str(a), str(c)
        ar = "".join(chr(0x660 + int(ch)) for ch in A)       # ARABIC-INDIC digits
        fw = "".join(chr(0xFF10 + int(ch)) for ch in C)      # FULLWIDTH digits
        garbage = [
            "bytes", "bytes=", "bytes=-", "bytes=--", "bytes=,", "bytes=" + A, "bits=%s-%s" % (A, C), "=%s-%s" % (A, C), "%s-%s" % (A, C),
            "bytes==%s-%s" % (A, C), "bytes:%s-%s" % (A, C), "bytes %s-%s" % (A, C), "bytes =%s-%s" % (A, C), "none", "bytes=*", "bytes=%s-*" % A,
            "bytes=--%s" % C, "bytes=%s--%s" % (A, C), "bytes=%s-%s-" % (A, C), "bytes=-%s-%s" % (A, C), "bytes=%s-%s-%s" % (A, C, C),
            "bytes=+%s-%s" % (A, C), "bytes=%s-+%s" % (A, C), "bytes=-+%s" % C, "bytes=+%s-" % A, "bytes=-%s" % ("+" + A),
            "bytes=%s_0-" % A, "bytes=%s-%s_0" % (A, C), "bytes=-1_0", "bytes=0_0-%s" % C,
            "bytes=%s -%s" % (A, C), "bytes=%s- %s" % (A, C), "bytes=%s - %s" % (A, C), "bytes=- %s" % C, "bytes= %s - %s " % (A, C), "bytes=%s\t-%s" % (A, C),
            "bytes=%s-%s" % (ar, C), "bytes=%s-%s" % (A, fw), "bytes=-%s" % fw, "bytes=%s-" % ar,
            "bytes=\u00a0%s-%s" % (A, C), "bytes=%s-%s\u2003" % (A, C), "bytes=%s\u00a0-%s" % (A, C), "bytes=%s-%s\x0b" % (A, C), "bytes=%s-\x0c%s" % (A, C),
            "bytes=0x%s-%s" % (A, C), "bytes=%s.0-%s" % (A, C), "bytes=%se0-" % A, "bytes=a-b", "bytes=%s-%s;q=1" % (A, C), "bytes=%s-%s=%s" % (A, C, C),
            "bytes=%s-%s/%d" % (A, C, size), "bytes=%s-%s,x" % (A, C), "bytes=x,%s-%s" % (A, C), "bytes=%s-%s,+1-" % (A, C), "bytes=%s-%s,1_0-" % (A, C),
            "bytes=0%s-00%s" % (A, C), "bytes=-0%s" % C,                      # leading zeros ARE grammatical (1*DIGIT)
            "BYTES=%s-%s" % (A, C), "Bytes=%s-" % A, "bYtEs=-%s" % C,          # lenient: unit case
            "bytes=%s-%s," % (A, C), "bytes=,%s-%s" % (A, C), "bytes=%s-%s,,-%s" % (A, C, C), "bytes=, ,%s-" % A,   # lenient: empty elements
            "bytes= %s-%s" % (A, C), "bytes=%s-%s " % (A, C), "bytes=\t%s-" % A, "bytes= -%s\t" % C,             # lenient: OWS at the edges
        ]
        hs.extend(b(g) for g in garbage)
        hs.extend([b"bytes=\xff-", b"bytes=" + A.encode() + b"-\xc3", b"\xfe\xff=0-1", b"bytes=\xe2\x82-" + C.encode()])
    seen, out = set(), []
    for h in hs:
        if h not in seen:
            seen.add(h)
            out.append(h)
    return out


VIAS = ("downloader", "handler")


def _chunk(chunk, seed, square_upto):
    res = common.Result()
    for size in chunk:
        cat = catalogue(size, size <= square_upto)
        for header in cat:
            nontrivial = False
            for via in VIAS:
                case = {"size": size, "header": header, "seed": seed, "via": via}
                bad, info = check_case(case)
                res.count("evaluations", 2)       # GET and HEAD
                res.count("outcome:" + str(info.get("status", "exception")))
                if info.get("single"):
                    nontrivial = True
                if info.get("multipart"):
                    res.count("multipart_unchecked")
                if info.get("multi_416_though_satisfiable"):
                    res.count("observation:multi-range 416 although a later listed range is satisfiable (outside the statement)")
                for sig, msg in bad:
                    res.violation(sig, case, msg)
                if size in (0, 7) and header in (b"bytes=-3", b"bytes=2-4", b"bytes=+1-2") and via == "downloader":
                    res.sample({"size": size, "header": header, "expected": info.get("expected"), "observed": info.get("observed")}, cap=6)
            res.count("cases")
            if nontrivial:
                res.count("nontrivial")
    return res


def _grid_chunk(chunk, seed):
    """real nodes: (kind, size) x reduced header catalogue"""
    res = common.Result()
    for (kind, size) in chunk:
        cat = catalogue(size, size <= 4)
        if 56 <= size <= 300:
            # real nodes have segment and cipher-block boundaries the boundary catalogue knows nothing of: a lattice of
            # first/last positions over the whole file (steps 7 and 5 are coprime to the segment sizes 12, 32, 100)
            step_a, step_b = (7, 5) if size <= 100 else (23, 19)
            seen = set(h for h in cat if h is not None)
            for a in range(0, size, step_a):
                for b in range(a, size, step_b):
                    h = b"bytes=%d-%d" % (a, b)
                    if h not in seen:
                        cat.append(h)
                        seen.add(h)
                cat.append(b"bytes=%d-" % a)
                cat.append(b"bytes=-%d" % (a + 1))
        for header in cat:
            if header is not None and (b"\n" in header or b"\r" in header):
                continue            # cannot be sent as one header line through a real HTTP parser
            case = {"size": size, "header": header, "seed": seed, "via": "grid:" + kind}
            bad, info = check_case(case)
            res.count("evaluations", 2)
            res.count("grid_requests", 2)
            res.count("outcome:" + str(info.get("status", "exception")))
            if info.get("single"):
                res.count("grid_nontrivial")
            for sig, msg in bad:
                res.violation(sig + "@real-node", case, msg)
    g = _GRID.pop("g", None)
    if g is not None:
        g.close()
        _GRID.clear()
    return res


def replay(case):
    case = dict(case)
    try:
        return check_case(case)[0]
    finally:
        g = _GRID.pop("g", None)
        if g is not None:
            g.close()
            _GRID.clear()


def run(tier, seed):
    top = 40 if tier == "quick" else 300
    square = 12 if tier == "quick" else 40
    # interleave small and large sizes so that chunks are balanced
    sizes = list(range(top + 1))
    res = common.pmap(_chunk, sizes, (seed, square), chunks=min(len(sizes), common.NWORKERS * 4))
    # (chk 300: ranges that start beyond AES block 9, where the decimal and the hexadecimal spelling of the block
    # number part ways; 600: more segments)
    kinds = [("lit", 0), ("lit", 1), ("lit", 55), ("chk", 56), ("chk", 100), ("chk", 300), ("sdmf", 1), ("sdmf", 56), ("mdmf", 1), ("mdmf", 56), ("mdmf", 100)]
    if tier != "quick":
        kinds += [("chk", 57), ("chk", 600), ("sdmf", 0), ("sdmf", 100), ("sdmf", 300), ("mdmf", 0), ("mdmf", 300)]
    res.merge(common.pmap(_grid_chunk, kinds, (seed,), chunks=len(kinds)))
    statuses = sorted(k.split(":", 1)[1] for k in res.counts if k.startswith("outcome:"))
    cov = {
        "evaluations": res.counts.get("evaluations", 0),
        "distinct_nontrivial": res.counts.get("nontrivial", 0),
        "distinct_cases": res.counts.get("cases", 0),
        "exhaustive": True,
        "distinct_statuses": len(statuses),
        "requests_against_real_nodes_on_a_grid": res.counts.get("grid_requests", 0),
        "statuses": ",".join(statuses),
        "rule": ("every file size 0..%d x every header of the boundary catalogue (all a-b / a- / -n over V(size), complete square 0..size+2 for size <= %d, "
                 "all ordered pairs of 11 boundary specs as two-range lists, ~75 non-grammar / lenient templates at 3 positions, undecodable bytes, no header) "
                 "x {GET, HEAD} x {FileDownloader.render, FileNodeHandler.render}; plus the catalogue against real literal / CHK / SDMF / MDMF nodes "
                 "on a virtual grid through the real HTTP parser and Root resource; evaluations = requests rendered by the real code; "
                 "non-trivial = (size, header) with exactly one grammatical byte-range in canonical form, where the statement fixes 206/416/200 uniquely") % (top, square),
    }
    return res, cov


MANIFEST = {
    "engine": "E",
    "technique": "exhaustive enumeration of a boundary-complete (file size x Range header x method x entry point) grid on the real web resource, compared with a strict RFC 7233 reference responder",
    "text": "Every file size 0..40 (thorough 0..300) is combined with every header of a catalogue built around that size (all first/last/suffix positions over the boundary values, the complete square for small sizes, two-range lists, ~75 malformed or lenient forms, undecodable bytes, no header), as GET and HEAD, through the real FileDownloader.render and FileNodeHandler.render on a real TahoeLAFSRequest; the response bytes are parsed back and compared with the set of outcomes the statement/RFC allow. Complete for the grid, nothing sampled. The real-node half adds a lattice of first/last positions over the whole file (steps coprime to the segment sizes) and a 300-byte CHK file.",
    "note": "Stub file node (read writes the slice): real literal/CHK/SDMF/MDMF nodes on a grid are not exercised here. Multi-range requests and lenient header forms accept every RFC-conformant alternative; '416 although a later listed range is satisfiable' is only counted. Trusted: the reference parser/responder in this module.",
}
