"""C48  Configuration values parse to their documented meaning  (Engine E, exhaustive closed catalogues).

Real code: allmydata.util.time_format.parse_duration / parse_date,
allmydata.util.abbreviate.parse_abbreviated_size / abbreviate_space, and the one place that
feeds tahoe.cfg values to them, allmydata.client._Client.get_anonymous_storage_server (run
unbound on a stub service holding a real _Config built by node.config_from_string, so the
real configparser normalisation and the real StorageServer / LeaseCheckingCrawler
constructors see the values).

Reference (written for this check, ASCII only), from docs/garbage-collection.rst,
docs/configuration.rst, the parse_duration docstring and the project's own tests:
  duration  [0-9]+ , optional single space, unit in {s second seconds day days mo month months
            year years} (case-insensitive); day=86400 s, month=31 d, year=365 d
  date      YYYY-MM-DD, a real calendar date; value = UTC midnight starting that day (the whole date catalogue is
            parsed again with the process in 5 other time zones: the value must not move)
  size      [0-9]+ , optional single space (configuration.rst: "100 M", "1024 Ki",
            "1048576 B"), optional K M G T P E (x1000^n), optional i (x1024^n instead),
            optional B; case-insensitive
Each input string falls in one of three zones:
  documented  -> the parser MUST return the reference value;
  lenient     -> (extra ASCII blanks/tabs, leading zeros, a bare "i"/"iB" suffix, leading or
                 trailing whitespace that configparser strips before the parser is reached):
                 the statement is silent; reject or return the reference value, both counted;
  malformed   -> the parser MUST raise.  ANY exception type is a rejection (types are
                 recorded in the evidence; the statement names no type).  Returning a
                 number is a violation ("silently read as something else").
Print -> parse.  abbreviate_space(n) prints "<n> B" for n < 1024: that is a documented
spelling, so it must parse back to n.  For n >= 1024 the printed form has two decimals
("1.23 kB"), which is lossy and outside the documented grammar of the setting; the parser
may reject it (counted) but if it accepts, the value must print identically (never another
magnitude).

Enumerated: every unit/suffix spelling x every case variant x numbers x blank variants; closed
malformed catalogues; every single-character insert/delete/replace mutation of
representative valid strings; EVERY Unicode code point (quick: every BMP code point) substituted as digit, as separator and for every letter of every
unit/suffix; every (month, day) in 00..13 x 00..32 for 8 years; the documentation's own
examples through the client.
"""
import datetime
import itertools
import os
import re
import shutil
import unicodedata

from allmydata.util.time_format import parse_duration, parse_date, ParseDurationUnitFormat
from allmydata.util.abbreviate import parse_abbreviated_size, abbreviate_space
from .. import common

LEVEL = "exploration"
ASSUMPTIONS = [
    "values reach the parsers only through configparser (outer whitespace already stripped); inputs with outer ASCII whitespace are in the 'lenient' zone",
    "month = 31 days and year = 365 days are taken from the parser's own tests (the docs give no lengths); seconds are a documented unit per the parse_duration docstring",
    "quick: code-point sweeps cover the BMP (U+0000..U+FFFF) and, for durations, the letters of the units s/mo/day/years; thorough: every code point, every letter of every unit",
    "numbers up to 20 digits; single-character mutations only",
]

DAY = 86400
UNITS = {"s": 1, "second": 1, "seconds": 1, "day": DAY, "days": DAY, "mo": 31 * DAY, "month": 31 * DAY, "months": 31 * DAY,
         "year": 365 * DAY, "years": 365 * DAY}
SCALE = {"": 0, "K": 1, "M": 2, "G": 3, "T": 4, "P": 5, "E": 6}
ASCII_WS = " \t\n\r\x0b\x0c"


def is_ascii(s):
    return all(ord(c) < 128 for c in s)


# ------------------------------------------------------------------ references
_DUR_RE = re.compile(r"^([ \t\n\r\x0b\x0c]*)([0-9]+)([ \t\n\r\x0b\x0c]*)(%s)([ \t\n\r\x0b\x0c]*)$" % "|".join(sorted(UNITS, key=len, reverse=True)), re.IGNORECASE | re.ASCII)


def ref_duration(s):
    """-> (zone, value): zone in documented / lenient / malformed"""
    core = s.strip(ASCII_WS)
    outer = core != s
    m = _DUR_RE.match(core) if is_ascii(core) else None
    if not m:
        return "malformed", None
    value = int(m.group(2)) * UNITS[m.group(4).lower()]
    num = m.group(2)
    if outer or m.group(3) not in ("", " ") or (len(num) > 1 and num[0] == "0"):
        return "lenient", value
    return "documented", value


_SIZE_RE = re.compile(r"^([0-9]+)([ \t\n\r\x0b\x0c]*)([KMGTPE]?)(I?)(B?)\Z", re.ASCII)


def ref_size(s):
    core = s.strip(ASCII_WS)
    outer = core != s
    if not is_ascii(core):
        return "malformed", None
    m = _SIZE_RE.match(core.upper())
    if not m:
        return "malformed", None
    num, sep, scale, binary, b = m.groups()
    value = int(num) * ((1024 if binary else 1000) ** SCALE[scale])
    if outer or sep not in ("", " ") or (len(num) > 1 and num[0] == "0") or (binary and not scale):
        return "lenient", value
    return "documented", value


_DATE_RE = re.compile(r"^([0-9]{4})-([0-9]{2})-([0-9]{2})\Z", re.ASCII)


def ref_date(s):
    core = s.strip(ASCII_WS)
    outer = core != s
    m = _DATE_RE.match(core) if is_ascii(core) else None
    if not m:
        return "malformed", None
    try:
        d = datetime.date(int(m.group(1)), int(m.group(2)), int(m.group(3)))
    except ValueError:
        return "malformed", None
    value = (d - datetime.date(1970, 1, 1)).days * DAY
    return ("lenient" if outer else "documented"), value


def has_nonascii_digit(s):
    return any(ord(c) > 127 and unicodedata.category(c) == "Nd" for c in s)


def has_nonascii_space(s):
    return any(ord(c) > 127 and c.isspace() for c in s) or any(c in "\x1c\x1d\x1e\x1f\x85" for c in s)


def malformed_sig(parser, s):
    if has_nonascii_digit(s):
        return parser + ":non-ascii-digit-accepted"
    if has_nonascii_space(s):
        return parser + ":unicode-space-accepted"
    if not is_ascii(s):
        return parser + ":non-ascii-letter-accepted"
    if parser == "date":
        core = s.strip(ASCII_WS)
        if _DATE_RE.match(core):
            return "date:out-of-range-day-accepted"
        if len(core) > 10 and ref_date(core[:10])[0] != "malformed":
            return "date:trailing-text-accepted"
    return parser + ":malformed-accepted"


PARSERS = {"duration": (parse_duration, ref_duration), "date": (parse_date, ref_date), "size": (parse_abbreviated_size, ref_size)}


def judge(parser, s):
    """-> (outcome, [(sig, msg)])  outcome e.g. 'documented:ok', 'malformed:rejected:KeyError'"""
    fn, ref = PARSERS[parser]
    zone, want = ref(s)
    try:
        got = fn(s)
        exc = None
    except Exception as e:  # noqa
        got, exc = None, type(e).__name__
    if parser == "size" and s == "" and exc is None and got is None:
        return "empty:None", []
    bad = []
    if exc is not None:
        if zone == "documented":
            sig = parser + ":documented-spelling-rejected"
            if parser == "size" and " " in s:
                sig = "size:documented-space-form-rejected"
            bad.append((sig, "%s(%r) raised %s; documented meaning: %d" % (fn.__name__, s, exc, want)))
        return "%s:rejected:%s" % (zone, exc), bad
    if zone == "malformed":
        bad.append((malformed_sig(parser, s), "%s(%r) returned %r; the string is outside the documented grammar and must be rejected" % (fn.__name__, s, got)))
        return "malformed:ACCEPTED", bad
    if got != want or isinstance(got, bool) or not isinstance(got, int):
        bad.append((parser + ":wrong-value", "%s(%r) returned %r, documented meaning %r" % (fn.__name__, s, got, want)))
        return zone + ":WRONG", bad
    return zone + ":ok", bad


# ------------------------------------------------------------------ catalogues
def case_variants(word):
    letters = [(c.lower(), c.upper()) if c.isalpha() else (c,) for c in word]
    return sorted(set("".join(t) for t in itertools.product(*letters)))


NUMBERS = ["0", "1", "7", "31", "1000", "007", "4294967296", "99999999999999999999"]
BLANKS = [("", "", ""), ("", " ", ""), (" ", "", ""), ("", "", " "), (" ", " ", " "), ("", "\t", ""), ("", "  ", ""), ("\t", "", "\t"), ("", "", "\n")]


def duration_inputs():
    out = []
    for u in sorted(UNITS):
        for uv in case_variants(u):
            for n in NUMBERS:
                for a, b, c in BLANKS:
                    out.append(a + n + b + uv + c)
    mal = ["", " ", "7", "days", " days", "-7days", "-7 days", "+7days", "7.5days", "7,5 days", "1e3 days", "0x10 days", "1_000 days", "7 7 days", "7 days 7", "7days7days",
           "7 days days", "7 kumquats", "7 d", "7 da", "7 dayss", "7 secondss", "7 sec", "7 secs", "7 min", "7 minutes", "7 h", "7 hours", "7 w", "7 weeks", "7 m", "7 mos", "7 mon",
           "7 monthes", "7 y", "7 yr", "7 yrs", "7 yearss", "7 da ys", "7 d ays", "1 0 days", "7days.", "7days,", "7 days\x00", "\x007 days", "7\x00days", "seven days", "7 Days!", "7-days",
           "7_days", "7:days", "days 7", "7 day s", "7  ", "7s7", "7ss", "7 s s", "7\u00a0days", "7\u2003days", "7\u3000days", "\u00a07 days", "7 days\u00a0", "7\u200bdays", "7\ufeffdays",
           "\u0667 days", "\u0661\u0660 days", "1\u0660 days", "\uff17 days", "\u0967 days", "\U0001d7d5 days", "\u00b2 days", "\u2460 days", "\u2167 days", "\u4e03 days",
           "7 \u017f", "7 \u017feconds", "7 day\u017f", "7 month\u017f", "7 year\u017f", "7 \u017fecond\u017f", "7 \u212a", "7 da\u00ffs", "7 \uff44\uff41\uff59\uff53", "7 d\u0430ys",
           "7 mo\u0300", "7 mont\u0127", "7 DAY\u017f"]
    out += mal
    for base in ("7days", "31 day", "2mo", "12 months", "1s"):
        out += single_mutations(base, "019 -+.,_:sSdm\t")
    return list(dict.fromkeys(out))


def single_mutations(base, chars):
    out = []
    for i in range(len(base) + 1):
        for c in chars:
            out.append(base[:i] + c + base[i:])
    for i in range(len(base)):
        out.append(base[:i] + base[i + 1:])
        for c in chars:
            out.append(base[:i] + c + base[i + 1:])
    return out


def size_inputs():
    out = []
    suffixes = [""]
    for sc in ["", "K", "M", "G", "T", "P", "E"]:
        for i in ("", "i"):
            for b in ("", "B"):
                suffixes.append(sc + i + b)
    for suf in sorted(set(suffixes)):
        for sv in case_variants(suf):
            for n in NUMBERS:
                for a, b, c in BLANKS:
                    out.append(a + n + b + sv + c)
    mal = [" ", "K", "B", "iB", "KiB", "-1", "-1K", "+1K", "1.5K", "1,5K", "1e3", "1E3", "0x10", "1_000", "1 000", "1KK", "1BB", "1 BB", "1Bi", "1BK", "1iK", "1KBi", "1KiBB", "1Kii",
           "1K B", "1 K B", "1K iB", "1Ki B", "12 cubits", "fhtagn", "1X", "1KX", "1D", "1Z", "1Y", "1kb/s", "1KB.", "1 KB,", "1\x00K", "1K\x00", "\x001K", "1\nK", "1K\n1", "1K 1", "1 1K",
           "K1", "1k1", "1KB1", "one K", "1 thousand", "1\u00a0K", "1\u2003KB", "\u0661K", "1\u0660K", "\uff11K", "1\uff2b", "1\u212a", "1\u212aB", "1k\u0131b", "1K\u0130B", "1\u0131",
           "1\u0131B", "1\u00b5", "1\u039c", "1\u041a", "1\u041c", "1K\u0392", "\u00b9K", "1\u2170", "1M\u2170B"]
    out += mal
    for base in ("100MB", "1024KiB", "5G", "123", "9eib"):
        out += single_mutations(base, "019 -+.,_:kKiIbBmx\t")
    return list(dict.fromkeys(out))


YEARS = [1970, 1999, 2000, 2009, 2023, 2024, 2038, 2100]


def date_inputs():
    out = []
    mal = ["", " ", "2009", "2009-01", "2009-01-", "2009-1-16", "2009-01-6", "09-01-16", "02009-01-16", "20090116", "2009/01/16", "2009.01.16", "2009 01 16", "2009_01_16", "2009-01-16x",
           "2009-01-16-", "2009-01-160", "2009-01-16 ", " 2009-01-16", "x2009-01-16", "2009-01-16T", "2009-01-16T00:00:00", "2009-01-16 12:34:56", "2009-01-16T12:34:56", "2009-01-16_12:34:56",
           "2009-01-16 00:00:00", "2009-01-16 00:00:00.5", "2009-01-16 23:59:59.999", "2009-01-16 24:00:00", "2009-01-16 99:99:99", "2009-01-16 12:34", "2009-01-16Z", "2009-01-16+00:00",
           "16-01-2009", "01-16-2009", "2009-Jan-16", "January 16th, 2009", "2009-01-16 (January 16th, 2009)", "+2009-01-16", "-2009-01-16", "2009--01-16", "2009-+1-16", "2009-01-+6",
           "2009-01-1 ", "2009- 1-16", "20 9-01-16", "2009-01-16\n", "2009-01-16\n2010-01-01", "2009-01-16\x00", "0000-01-01", "0001-01-01", "9999-12-31", "1969-12-31", "1900-02-29",
           "\u0662\u0660\u0660\u0669-\u0660\u0661-\u0661\u0666", "2009-01-1\u0666", "\uff12\uff10\uff10\uff19-01-16", "2009\u201001\u201016", "2009\u221201\u221216", "2009-01-16\u00a0",
           "200\u0669-01-16", "2009-\u0660\u0661-16", "2009-01-16\u3000"]
    out += mal
    for y in [2009] + [y for y in YEARS if y != 2009]:
        for mth in range(0, 14):
            for d in range(0, 33):
                out.append("%04d-%02d-%02d" % (y, mth, d))
    for base in ("2009-01-16", "2024-02-29", "2007-12-25"):
        out += single_mutations(base, "019-/ T_:.+x")
    return list(dict.fromkeys(out))


def print_parse_numbers():
    ns = set(range(0, 2001))
    for e in range(0, 22):
        ns.add(10 ** e)
        ns.add(10 ** e - 1)
        ns.add(10 ** e + 1)
    for e in range(0, 71):
        ns.update((2 ** e - 1, 2 ** e, 2 ** e + 1))
    for k in range(1, 7):
        for base in (1000, 1024):
            for d in (-1, 0, 1):
                ns.add(base ** k + d)
                ns.add(base ** k * 999 + d)
                ns.add(base ** k * 1023 + d)
                ns.add((base ** k * 1995) // 1000 + d)
    return sorted(n for n in ns if n >= 0)


# ------------------------------------------------------------------ chunks
def _note_exc(res, parser, outcome, s):
    if ":rejected:" in outcome:
        t = outcome.rsplit(":", 1)[1]
        key = "reject_example:%s:%s" % (parser, t)
        if key not in res.notes:
            res.notes[key] = s


def _tally(res, prefix, parser, tally, first):
    for outcome, n in tally.items():
        res.count("evaluations", n)
        res.count("%s%s:%s" % (prefix, parser, outcome), n)
        res.distinct.add((parser, outcome))
        _note_exc(res, parser, outcome, first[outcome])


# The documented value of a date is midnight UTC whatever the time zone the node runs in: dates (and durations, which
# are pure arithmetic) are parsed again with the process in other zones (POSIX TZ strings, no tzdata needed).
ZONES = ["EST5EDT,M3.2.0,M11.1.0", "CET-1CEST,M3.5.0,M10.5.0/3", "NZST-12NZDT,M9.5.0,M4.1.0/3", "IST-5:30", "UTC0"]


class in_zone(object):
    def __init__(self, tz):
        self.tz = tz

    def __enter__(self):
        import time as _t
        self.old = os.environ.get("TZ")
        if self.tz is not None:
            os.environ["TZ"] = self.tz
            _t.tzset()

    def __exit__(self, *a):
        import time as _t
        if self.tz is not None:
            if self.old is None:
                os.environ.pop("TZ", None)
            else:
                os.environ["TZ"] = self.old
            _t.tzset()


def _strings_chunk(chunk):
    res = common.Result()
    tallies = {}
    for parser, s in chunk:
        tz = None
        if isinstance(parser, tuple):
            parser, tz = parser
        with in_zone(tz):
            outcome, bad = judge(parser, s)
        if tz is not None:
            res.count("evaluations")
            res.count("zone_evaluations")
            for sig, msg in bad:
                res.violation(sig + "@TZ", {"kind": "string", "parser": parser, "s": s, "tz": tz}, "with TZ=%s: %s" % (tz, msg))
            continue
        tally, first = tallies.setdefault(parser, ({}, {}))
        tally[outcome] = tally.get(outcome, 0) + 1
        first.setdefault(outcome, s)
        if not (outcome == "documented:ok" and s.isdigit()):
            res.count("nontrivial")
        for sig, msg in bad:
            res.violation(sig, {"kind": "string", "parser": parser, "s": s}, msg)
    for parser, (tally, first) in tallies.items():
        _tally(res, "", parser, tally, first)
    return res


DUR_TEMPLATES = None


def sweep_templates(parser, tier="thorough"):
    """templates with one '{}' slot that receives every code point"""
    if parser == "duration":
        t = ["{} days", "1{} days", "{}1 days", "7{}days", "7 {}days", "7days{}"]
        for u in (sorted(UNITS) if tier == "thorough" else ["s", "mo", "day", "years"]):
            for i in range(len(u)):
                t.append("7 " + u[:i] + "{}" + u[i + 1:])
        return t
    if parser == "size":
        t = ["{}K", "1{}K", "{}1K", "1{}", "1K{}", "1{}B", "1K{}B", "1Ki{}", "1{}iB", "1 {}B", "{}"]
        return t
    t = []
    base = "2009-01-16"
    for i in range(len(base)):
        t.append(base[:i] + "{}" + base[i + 1:])
    t += ["{}" + base, base + "{}", "2009-01-1{}6"]
    return t


def _sweep_chunk(chunk, tier):
    res = common.Result()
    tallies = {}
    for (parser, lo, hi) in chunk:
        templates = sweep_templates(parser, tier)
        tally, first = tallies.setdefault(parser, ({}, {}))
        for cp in range(lo, hi):
            if 0xD800 <= cp <= 0xDFFF:
                continue
            c = chr(cp)
            for t in templates:
                s = t.format(c)
                outcome, bad = judge(parser, s)
                tally[outcome] = tally.get(outcome, 0) + 1
                if outcome not in first:
                    first[outcome] = s
                for sig, msg in bad:
                    res.violation(sig, {"kind": "string", "parser": parser, "s": s}, msg + "  (U+%04X %s in template %r)" % (cp, unicodedata.name(c, "?"), t))
            if cp > 127:
                res.count("nontrivial", len(templates))
    for parser, (tally, first) in tallies.items():
        _tally(res, "sweep:", parser, tally, first)
    return res


def _print_chunk(chunk):
    res = common.Result()
    for n in chunk:
        for SI in (True, False):
            printed = abbreviate_space(n, SI)
            res.count("evaluations")
            res.count("nontrivial")
            try:
                got = parse_abbreviated_size(printed)
                exc = None
            except Exception as e:  # noqa
                got, exc = None, type(e).__name__
            case = {"kind": "print", "n": n, "SI": SI}
            if n < 1024:
                if printed != "%d B" % n:
                    res.violation("print:small-size-not-exact", case, "abbreviate_space(%d) = %r, expected '%d B'" % (n, printed, n))
                elif exc is not None:
                    res.count("print:bytes-form-rejected")
                    res.violation("size:documented-space-form-rejected", case,
                                  "abbreviate_space(%d) prints %r, a documented spelling (configuration.rst lists '1048576 B'); parse_abbreviated_size raised %s instead of returning %d" % (n, printed, exc, n))
                elif got != n:
                    res.violation("print:parses-to-different-value", case, "abbreviate_space(%d) prints %r which parses to %r" % (n, printed, got))
                else:
                    res.count("print:bytes-form-roundtrip")
            else:
                if exc is not None:
                    res.count("print:decimal-form-rejected:" + exc)
                elif got is None or abbreviate_space(got, SI) != printed:
                    res.violation("print:parses-to-different-value", case, "abbreviate_space(%d) prints %r which parses to %r (prints as %r)" % (n, printed, got, abbreviate_space(got, SI) if got is not None else None))
                else:
                    res.count("print:decimal-form-roundtrip")
            res.distinct.add(("print", n < 1024, exc))
    return res


# ------------------------------------------------------------------ through the client
DOC_EXAMPLES = {
    "reserved_space": ["100MB", "100 M", "100000000B", "100000000", "100000kb", "1MiB", "1024KiB", "1024 Ki", "1048576 B", "1G", "10000000000", "5kb", "5 kB", "5 KiB",
                       "1.5G", "-1", "1 cubit", "5k\u0131b", "\u0665K", "1K B", "", "   "],
    "expire.override_lease_duration": ["7days", "31day", "60 days", "2mo", "3 month", "12 months", "2years", "5 s", "90 SECONDS", "7", "days", "7 weeks", "1.5 days",
                                       "\u0663days", "7 day\u017f", "7\u00a0days", "", "   "],
    "expire.cutoff_date": ["2009-01-16", "2008-02-02", "2007-12-25", "2024-02-29", "2009-02-30", "2009-01-32", "2009-01-00", "2009-13-01", "2009-01-16 12:34:56", "2009/01/16",
                           "\u0662\u0660\u0660\u0669-\u0660\u0661-\u0661\u0666", "2009-1-16", "", "   "],
}


def client_case(key, value, tmp):
    """-> (outcome, bad)"""
    from twisted.application import service
    from allmydata import client
    from allmydata.node import config_from_string

    class Stub(service.MultiService):
        STOREDIR = "storage"
        nodeid = b"n" * 20
        stats_provider = None

        def __init__(self, config):
            service.MultiService.__init__(self)
            self.config = config

        def get_config(self, *a, **kw):
            return self.config.get_config(*a, **kw)

    lines = ["[node]", "nickname = x", "[storage]", "enabled = true"]
    if key == "reserved_space":
        lines.append("reserved_space = " + value)
    elif key == "expire.override_lease_duration":
        lines += ["expire.enabled = true", "expire.mode = age", "expire.override_lease_duration = " + value]
    else:
        lines += ["expire.enabled = true", "expire.mode = cutoff-date", "expire.cutoff_date = " + value]
    shutil.rmtree(tmp, ignore_errors=True)
    os.makedirs(tmp)
    parser = {"reserved_space": "size", "expire.override_lease_duration": "duration", "expire.cutoff_date": "date"}[key]
    cfg = config_from_string(tmp, "client.port", "\n".join(lines) + "\n", _valid_config=client._valid_config())
    seen = cfg.get_config("storage", key)
    zone, want = PARSERS[parser][1](seen)
    try:
        ss = client._Client.get_anonymous_storage_server(Stub(cfg))
        got = {"size": ss.reserved_space, "duration": ss.lease_checker.override_lease_duration, "date": ss.lease_checker.cutoff_date}[parser]
        exc = None
    except Exception as e:  # noqa
        got, exc = None, type(e).__name__
    bad = []
    if exc is not None:
        if zone == "documented":
            sig = "%s:documented-spelling-rejected" % parser
            if parser == "size" and " " in seen:
                sig = "size:documented-space-form-rejected"
            bad.append((sig, "tahoe.cfg [storage]%s = %s : node start-up raised %s; documented meaning %d" % (key, value, exc, want)))
        return "%s:rejected:%s" % (zone, exc), bad
    if parser == "size" and seen == "" and got == 0:
        # parse_abbreviated_size documents "" (like None) as "no value"; the node then reserves nothing
        return "empty:unset", bad
    if zone == "malformed":
        bad.append((malformed_sig(parser, seen), "tahoe.cfg [storage]%s = %s : accepted as %r; the value is outside the documented grammar" % (key, value, got)))
        return "malformed:ACCEPTED", bad
    if got != want:
        bad.append(("%s:wrong-value" % parser, "tahoe.cfg [storage]%s = %s : storage server configured with %r, documented meaning %r" % (key, value, got, want)))
        return zone + ":WRONG", bad
    return zone + ":ok", bad


def _client_chunk(chunk):
    res = common.Result()
    tmp = "/dev/shm/vt-c48-%d" % os.getpid()
    try:
        for key, value in chunk:
            outcome, bad = client_case(key, value, tmp)
            res.count("evaluations")
            res.count("nontrivial")
            res.count("client:%s:%s" % (key, outcome))
            res.distinct.add(("client", key, outcome))
            for sig, msg in bad:
                res.violation(sig, {"kind": "client", "key": key, "value": value}, msg)
            if value in ("100MB", "60 days", "2009-01-16"):
                res.sample({"tahoe.cfg": "[storage]%s = %s" % (key, value), "outcome": outcome})
    finally:
        shutil.rmtree(tmp, ignore_errors=True)
    return res


def _print_and_client_chunk(chunk):
    res = _print_chunk([x for kind, x in chunk if kind == "print"])
    cl = [x for kind, x in chunk if kind == "client"]
    if cl:
        res.merge(_client_chunk(cl))
    return res


# ------------------------------------------------------------------ replay / run
def replay(case):
    k = case["kind"]
    if k == "string":
        with in_zone(case.get("tz")):
            return [(sig + ("@TZ" if case.get("tz") else ""), msg) for sig, msg in judge(case["parser"], case["s"])[1]]
    if k == "print":
        r = _print_chunk([case["n"]])
        return [(v["sig"], v["msg"]) for v in r.violations if v["case"]["SI"] == case["SI"]]
    tmp = "/dev/shm/vt-c48-replay-%d" % os.getpid()
    try:
        return client_case(case["key"], case["value"], tmp)[1]
    finally:
        shutil.rmtree(tmp, ignore_errors=True)


def run(tier, seed):
    # the enum of the real parser must be the documented unit list (else the reference is stale)
    res = common.Result()
    real_units = sorted(ParseDurationUnitFormat.list_values())
    if real_units != sorted(UNITS):
        res.violation("duration:unit-list-differs-from-documentation", {"kind": "string", "parser": "duration", "s": "7 " + (sorted(set(real_units) ^ set(UNITS)) or ["?"])[0]},
                      "ParseDurationUnitFormat = %r, documented units %r" % (real_units, sorted(UNITS)))
    sizes = {}
    items = []
    for parser, gen in (("duration", duration_inputs), ("size", size_inputs), ("date", date_inputs)):
        strings = gen()
        sizes[parser] = len(strings)
        items += [(parser, x) for x in strings]
        if parser == "date":
            items += [((parser, tz), x) for tz in ZONES for x in strings]
    res.merge(common.pmap(_strings_chunk, items, chunks=32))
    top = 0x110000
    lim = top if tier == "thorough" else 0x10000
    step = 0x400 if tier == "thorough" else 0x200
    ranges = []
    for parser in ("duration", "date", "size"):     # heaviest first
        ranges += [(parser, lo, min(lo + step, lim)) for lo in range(0, lim, step)]
        sizes["sweep_" + parser] = lim * len(sweep_templates(parser, tier))
    res.merge(common.pmap(_sweep_chunk, ranges, (tier,), chunks=min(len(ranges), common.NWORKERS * 6)))
    nums = print_parse_numbers()
    client_items = [(k, v) for k in sorted(DOC_EXAMPLES) for v in DOC_EXAMPLES[k]]
    res.merge(common.pmap(_print_and_client_chunk, [("print", n) for n in nums] + [("client", kv) for kv in client_items], chunks=16))
    exc_types = {}
    for k, v in res.counts.items():
        if ":rejected:" in k:
            parser = k.split(":")[1] if k.startswith("sweep:") else k.split(":")[0]
            t = k.rsplit(":", 1)[1]
            exc_types.setdefault(parser, {})
            exc_types[parser][t] = exc_types[parser].get(t, 0) + v
    examples = {k[len("reject_example:"):]: v for k, v in res.notes.items() if k.startswith("reject_example:")}
    outcomes = sorted(set(":".join(str(x) for x in d) for d in res.distinct))
    cov = {
        "evaluations": res.counts.get("evaluations", 0),
        "distinct_nontrivial": res.counts.get("nontrivial", 0),
        "exhaustive": True,
        "catalogue_sizes": sizes,
        "print_parse_numbers": len(nums),
        "client_cases": len(client_items),
        "rejection_exception_types": exc_types,
        "rejection_examples_by_type": examples,
        "distinct_outcomes": outcomes,
        "rule": ("durations: 10 unit spellings x every case variant x %d numbers x %d blank layouts + closed malformed list + every single-character mutation of 5 valid strings; "
                 "sizes: 29 suffix spellings likewise; dates: every (month 00..13, day 00..32) for %d years + malformed list + mutations; every code point below U+%X "
                 "in every template slot (%d/%d/%d templates); abbreviate_space(n) for %d numbers x {SI, binary} fed to parse_abbreviated_size; %d tahoe.cfg values through _Client.get_anonymous_storage_server. "
                 "Distinct strings are evaluated once each; non-trivial = anything but a bare decimal number accepted as itself")
                % (len(NUMBERS), len(BLANKS), len(YEARS), (top if tier == "thorough" else 0x10000), len(sweep_templates("duration", tier)), len(sweep_templates("date", tier)), len(sweep_templates("size", tier)),
                   len(nums), len(client_items)),
    }
    return res, cov


MANIFEST = {
    "engine": "E",
    "technique": "exhaustive closed catalogues (all spellings x case x blanks, malformed lists, single-character mutations, every Unicode code point in every slot) against an ASCII reference grammar taken from the documentation; documentation examples through the real client configuration path",
    "text": "parse_duration, parse_date and parse_abbreviated_size are run on every string of the catalogues and compared with a three-zone reference (documented: must return the documented value; lenient: either; malformed: must raise, any exception type). abbreviate_space output is fed back to the size parser. The documentation's own example values are put in a tahoe.cfg and pushed through _Client.get_anonymous_storage_server to a real StorageServer. The date catalogue is parsed again with the process in five other time zones.",
    "note": "Exception types of rejections are recorded in evidence only. Printed sizes with decimals may be rejected (counted); '<n> B' is a documented spelling and must parse. Month=31 d, year=365 d from the project's tests.",
}
