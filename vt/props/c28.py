"""C28  Storage space reservations are honoured  (Engine H: BFS over histories, simulated disk).

System under test: real StorageServer + FoolscapStorageServer on tmpfs, clock = virtual reactor.
`os.statvfs` (read by allmydata.util.fileutil.get_disk_stats, which StorageServer.get_available_space reaches on
every call - so the reserved-space arithmetic of fileutil is code under test) is rebound to a simulated disk with
100 root-only bytes (f_bfree > f_bavail) (lib_storage.SimDisk):
        available = max(0, capacity - payload bytes of completed shares - reserved_space)
i.e. the disk charges a share's payload once it is complete; what is still being uploaded is
only covered by the server's own reservation accounting - which is what the property is about.

Roots: capacity in {0, 5, 10, 11, 20} (thorough adds 8, 13, 16, 40) x reserved_space in {0, 4} x
readonly in {False, True}.
Operations (every enabled one from every reached state), 2 storage indexes x 2 share numbers:
    alloc(si, shnums in {[0],[1],[0,1]}, size in {3,5})     remote_allocate_buckets
    done(si, sh)       write all `size` bytes and close           (upload completes)
    abort(si, sh)      remote_abort
    disc               the connection's canary fires (aborts every upload in progress)
BFS runs to CLOSURE where the bound allows (coverage.roots says which), else to the bound.

Oracle (the statement, nothing more):
  * at every alloc:  (sum of sizes of the writers granted by THIS call)
                     <= max(0, available_now - sum of sizes of uploads still in progress)
    with available_now read from the same simulated disk just before the call;
  * a read-only server grants no writer at all;
  * at every state allocated_size() <= sum of sizes of the uploads in progress according to the
    reference (a reservation that survives done/abort/disconnect is "not released"); the opposite
    direction (the server forgets a live reservation) is only counted here - it becomes an
    over-allocation violation at the next alloc, which is what the statement is about.
  Not demanded: that a request which fits is granted (refusals are counted).

Canonical state: root name + file tree under shares/ (lease expiry zeroed) + for each entry of
_bucket_writers (path, size, closed) + number of canary watchers + per-share reference status.
Merged states have the same futures: allocate/close/abort read only the disk tree, the
_bucket_writers table and (through the simulated disk) the tree again; expiry values and the
absolute clock are irrelevant to them and time never advances in this check.
"""
import os

from .. import common, hbfs
from .. import lib_storage as L

LEVEL = "model_checking"
ASSUMPTIONS = [
    "simulated disk: capacity in {0,5,10,11,20}, charges completed payload bytes only (container overhead of 12+72 bytes per share is not charged: the server does not reserve it either)",
    "2 storage indexes x 2 share numbers, sizes {3,5}, one connection; histories to closure or to the bound in coverage.roots",
    "mutable slots, lease additions and corruption advisories (other consumers of space) are not exercised",
]

SIS = [b"\xc2\x80" + b"A" * 14, b"\xc2\xbf" + b"B" * 14]
NAMES = "AB"
SECRET = (b"r28!" * 8, b"c28!" * 8)
SIZES = [3, 5]


class World(object):
    def __init__(self, cfg, box, disk):
        self.cfg, self.box, self.disk = cfg, box, disk
        self.canary = L.Canary("c0")
        self.m = {}         # (i, sh) -> {"st": "inc"|"fin", "size": n}
        self.writers = {}
        self.cause = {}
        self.viols = []
        self.stats = {}

    def bad(self, sig, msg):
        self.viols.append((sig, msg))

    def note(self, k):
        self.stats[k] = self.stats.get(k, 0) + 1

    def in_progress(self):
        return sum(v["size"] for v in self.m.values() if v["st"] == "inc")

    def show(self):
        return "{" + ", ".join("%s/%d:%s(%d)" % (NAMES[k[0]], k[1], v["st"], v["size"]) for k, v in sorted(self.m.items())) + "}"

    def step(self, op):
        getattr(self, "op_" + op[0])(*op[1:])

    def op_alloc(self, i, shnums, size):
        ss = self.box.ss
        avail = self.disk.available(ss.sharedir, ss.reserved_space)
        inprog = self.in_progress()
        room = max(0, avail - inprog)
        try:
            already, writers = self.box.fss.remote_allocate_buckets(SIS[i], SECRET[0], SECRET[1], list(shnums), size, self.canary)
        except Exception as e:  # noqa
            self.bad("allocate-raised:" + L.exc_name(e), "alloc(%s,%r,%d) raised %r; model %s" % (NAMES[i], shnums, size, e, self.show()))
            return
        granted = sorted(writers)
        where = "cfg %s: alloc(%s, %r, size=%d) granted %r; disk available (after reserved_space) = %d, uploads in progress = %d bytes -> room for %d; model %s" % (
            self.cfg["name"], NAMES[i], shnums, size, granted, avail, inprog, room, self.show())
        if self.cfg["readonly"] and granted:
            self.bad("readonly-server-accepted-allocation", where)
        elif size * len(granted) > room:
            self.bad("over-allocation", where)
        wanted = [sh for sh in shnums if (i, sh) not in self.m]
        fits = min(len(wanted), room // size) if not self.cfg["readonly"] else 0
        if len(granted) < fits:
            self.note("refused-though-fits")
        self.note("granted-%d-of-%d" % (len(granted), len(wanted)))
        for sh in granted:
            if (i, sh) in self.m:
                self.bad("writer-granted-for-existing-share", where)
                continue
            self.m[(i, sh)] = {"st": "inc", "size": size}
            self.writers[(i, sh)] = writers[sh]

    def op_done(self, i, sh):
        key = (i, sh)
        size = self.m[key]["size"]
        try:
            self.writers[key].remote_write(0, bytes(0x30 + (i * 2 + sh + p) % 10 for p in range(size)))
            self.writers[key].remote_close()
        except Exception as e:  # noqa
            self.bad("write-close-raised:" + L.exc_name(e), "done(%s/%d) raised %r; model %s" % (NAMES[i], sh, e, self.show()))
        self.m[key]["st"] = "fin"
        del self.writers[key]
        self.cause[key] = "close"

    def op_abort(self, i, sh):
        key = (i, sh)
        try:
            self.writers[key].remote_abort()
        except Exception as e:  # noqa
            self.bad("abort-raised:" + L.exc_name(e), "abort(%s/%d) raised %r; model %s" % (NAMES[i], sh, e, self.show()))
        del self.m[key]
        del self.writers[key]
        self.cause[key] = "abort"

    def op_disc(self):
        errs = self.canary.disconnect()
        if errs:
            self.bad("disconnect-callback-raised:" + L.exc_name(errs[0]), "%r; model %s" % (errs[0], self.show()))
        for key in sorted(self.writers):
            del self.m[key]
            self.cause[key] = "disconnect"
        self.writers = {}
        self.canary = L.Canary("c0")

    def observe(self, last_op):
        ss = self.box.ss
        want = self.in_progress()
        try:
            got = ss.allocated_size()
        except Exception as e:  # noqa
            self.bad("allocated_size-raised:" + L.exc_name(e), repr(e))
            return
        if got > want:
            kind = last_op[0] if last_op else "?"
            cause = {"done": "close", "abort": "abort", "disc": "disconnect"}.get(kind, kind)
            self.bad("reservation-not-released-after-" + cause,
                     "cfg %s: allocated_size()=%d but uploads in progress hold %d bytes; _bucket_writers=%r; model %s"
                     % (self.cfg["name"], got, want, sorted(self.box.rel(p) for p in ss._bucket_writers), self.show()))
        elif got < want:
            self.note("server-forgot-live-reservation")
        if not self.writers and (got != 0 or ss._bucket_writers):
            self.note("idle-but-reserved")

    def canon(self):
        box = self.box
        files = []
        for k, v in sorted(box.share_tree().items()):
            if v is not None and len(v) >= 12:
                p = L.parse_immutable(v)
                v = (v[:8], p["nleases"], p["data"], tuple(r[:-4] for r in p["leases"]))
            files.append((k, v))
        bws = tuple(sorted((box.rel(p), bw._max_size, bool(bw.closed)) for p, bw in box.ss._bucket_writers.items()))
        model = tuple(sorted((k, v["st"], v["size"]) for k, v in self.m.items()))
        return (self.cfg["name"], tuple(files), bws, len(self.canary.watchers), len(box.fss._bucket_writer_disconnect_markers), model, tuple(L.pending_timers()))

    def enabled(self):
        ops = []
        for i in range(2):
            for shnums in ([0], [1], [0, 1]):
                for size in SIZES:
                    ops.append(["alloc", i, shnums, size])
        for (i, sh) in sorted(self.writers):
            ops.append(["done", i, sh])
            ops.append(["abort", i, sh])
        if self.writers:
            ops.append(["disc"])
        return ops


def run_history(hist):
    cfg = hist[0][1]
    box = L.Box(reserved_space=cfg["reserved"], readonly=cfg["readonly"])
    try:
        with L.SimDisk(cfg["capacity"]) as disk:
            w = World(cfg, box, disk)
            for op in hist[1:]:
                w.step(op)
            w.observe(hist[-1] if len(hist) > 1 else None)
            return w.canon(), list(w.viols), w.enabled(), w
    finally:
        box.close()


_STATS_PATH = [None]


def bfs_replay(hist):
    canon, viols, ops, w = run_history(hist)
    if _STATS_PATH[0]:
        with open(_STATS_PATH[0], "a") as f:
            f.write(" ".join(sorted(w.stats)) + "\n")
    return canon, viols, ops


def replay(case):
    return run_history(case["history"])[1]


def roots_for(tier="quick"):
    out = []
    for cap in (0, 5, 10, 11, 20) + ((8, 13, 16, 40) if tier == "thorough" else ()):
        for rsv in (0, 4):
            for ro in (False, True):
                out.append({"name": "cap%d-rsv%d-%s" % (cap, rsv, "ro" if ro else "rw"), "capacity": cap, "reserved": rsv, "readonly": ro})
    return out


def run(tier, seed):
    bound = 12
    bound = int(os.environ.get("VERIF_C28_DEPTH", bound))
    path = "/dev/shm/vt-c28-stats-%d" % os.getpid()
    if os.path.exists(path):
        os.remove(path)
    _STATS_PATH[0] = path
    res = common.Result()
    per = []
    try:
        # all roots in ONE exploration: canonical forms carry the root name, so they never merge
        roots = [[["cfg", cfg]] for cfg in roots_for(tier)]
        r = hbfs.explore(bfs_replay, bound, roots=roots)
        res.merge(r)
        res.counts["states"] = r.counts.get("states", 0)
        kinds = {}
        if os.path.exists(path):
            with open(path) as f:
                for line in f:
                    for k in line.split():
                        kinds[k] = kinds.get(k, 0) + 1
    finally:
        _STATS_PATH[0] = None
        if os.path.exists(path):
            os.remove(path)
    for k, v in sorted(kinds.items()):
        res.counts["histories-with:" + k] = v
    closed = r.notes.get("max_depth", 0) < bound
    cov = {
        "states": res.counts.get("states", 0),
        "transitions": res.counts.get("transitions", 0),
        "traces_validated_against_impl": res.counts.get("transitions", 0),
        "max_depth": r.notes.get("max_depth", 0),
        "closed": closed,
        "roots": len(roots),
        "distinct_outcome_kinds": len(kinds),
        "rule": "BFS over all histories of alloc/done/abort/disc from %d roots (capacity x reserved_space x readonly) on a real StorageServer with a simulated disk, "
                "to history length %d (%s); every transition is a fresh replay on the real code; each alloc is compared with the space inequality of the statement"
                % (len(roots), r.notes.get("max_depth", 0), "closure reached: no new canonical state" if closed else "bound reached, not closed"),
    }
    return res, cov


MANIFEST = {
    "engine": "H",
    "technique": "explicit-state BFS to closure over allocate/complete/abort/disconnect histories on a real StorageServer whose free-space query is rebound to a simulated disk",
    "text": "From every (capacity, reserved_space, readonly) root all histories of allocations of 3/5-byte shares on 2 storage indexes x 2 share numbers, completions, aborts and disconnects are explored until no new canonical state appears; at every allocation the sizes granted are compared with available space minus the reference's in-progress reservations, and allocated_size() with the reference after every step. The simulated disk answers os.statvfs (with root-only free blocks), so fileutil's reserved-space arithmetic is code under test.",
    "note": "Simulated disk charges completed payload only (container overhead is neither charged nor reserved). Whether a fitting request is granted is not demanded (counted). Mutable slots and leases as space consumers are outside. Every transition is an implementation run.",
}
