"""C35  Merkle hash trees accept only genuine leaves  (Engine H, reachable-state closure, exhaustive).

Object under test: a real allmydata.hashtree.IncompleteHashTree seeded with the root of the
real allmydata.hashtree.HashTree built over n leaf hashes (the "tree that produced the
root"; itself cross-checked against an independent hashlib re-computation, padding included).

State space.  The object's whole state is its list of 2L-1 slots (L = n rounded up to a power
of two); a state is canonicalised as the tuple of slots, so merged states are *identical*
objects and have equal futures.  BFS from {root} over EVERY successful call of the alphabet
below until no new state appears (closure).  Every path in that graph is a validation order,
so "any validation order" is covered by construction.

Alphabet, applied in EVERY reachable state, all on the real object:
  * for every leaf slot l in 0..L-1 (real leaves are passed through `leaves=`, padding slots
    through `hashes=`), for EVERY assignment of
        G genuine | F forged (fixed value, distinct from every genuine node) | A absent |
        O the genuine hash of another node (its sibling) | E empty bytes (small trees only)
    to each node of needed_for(l) + {l}, combined with: nothing, or ONE further node x (every
    node outside the chain, root included) carrying G, F or O (or E);
  * "expand x": the two genuine children of a populated internal node x (reaches the
    population states no leaf validation produces);
  * conflicting `leaves=`/`hashes=` arguments for the same leaf.
Oracle (statement only): success => the supplied leaf is the genuine one and every stored
node equals the genuine node; exactly-what-needed_hashes(l)-asked-for + genuine leaf (and any
all-genuine superset of it inside the chain) => success; any exception => the slot list is
identical to before the call.  Which exception is raised, and whether unverifiable genuine
extras are accepted, is only counted.
A second part walks a closed family of validation orders over trees of up to 64 (thorough
256) leaves with the genuine / forged-leaf / forged-aux / missing-aux call in every step.
"""
import hashlib
import itertools

from allmydata.hashtree import HashTree, IncompleteHashTree, BadHashError, NotEnoughHashesError
from .. import common

LEVEL = "model_checking"
ASSUMPTIONS = [
    "hashes are treated as distinct symbols: SHA-256d collisions/preimages are outside the model (real SHA-256d is what runs)",
    "closure over trees of 1..8 leaves (thorough also 9,12,13,16). quick: full alphabet for n=1..4 and n=8, chain-only assignments (no further node) for n=5..7, whose IncompleteHashTree has the same shape as n=8; thorough: full alphabet for n=1..8, for 9..16 leaves the 'one further node' is restricted to the root and one cousin of the leaf (n=16) or omitted (n=9,12,13: same tree shape as 16, different real/padding split); n=10,11,14,15 are not run. Reachability of every population state is ensured by the explicit expand-x operations",
    "forged values are two fixed 32-byte strings and b''; an adversary value that happens to equal a genuine node is the O alternative",
    "17..64 (thorough ..256) leaves: only the closed family of validation orders listed in coverage.rule, not every order",
]

FORGED = hashlib.sha256(b"vt-c35-forged").digest()


# ------------------------------------------------------------------ independent reference
def _netstring(b):
    return b"%d:%s," % (len(b), b)


def _sha256d(b):
    return hashlib.sha256(hashlib.sha256(b).digest()).digest()


def ref_tree(leaves):
    """Reference Merkle tree as documented in hashtree.py / docs/specifications: bottom row
    padded to a power of two with H('Merkle tree empty leaf', '%d' % i)."""
    L = 1
    while L < len(leaves):
        L *= 2
    row = list(leaves) + [_sha256d(_netstring(b"Merkle tree empty leaf") + b"%d" % i) for i in range(len(leaves), L)]
    rows = [row]
    while len(rows[-1]) > 1:
        r = rows[-1]
        rows.append([_sha256d(_netstring(b"Merkle tree internal node") + _netstring(r[2 * i]) + _netstring(r[2 * i + 1]))
                     for i in range(len(r) // 2)])
    out = []
    for r in reversed(rows):
        out.extend(r)
    return out


def leaf_values(n, seed):
    return [_sha256d(b"vt-c35-leaf:%d:%d:%d" % (seed, n, i)) for i in range(n)]


def ref_chain(node):
    out = []
    while node != 0:
        out.append(node + 1 if node % 2 == 1 else node - 1)
        node = (node - 1) // 2
    return out


class World(object):
    def __init__(self, n, seed):
        self.n = n
        self.leaves = leaf_values(n, seed)
        self.genuine = list(HashTree(list(self.leaves)))
        self.size = len(self.genuine)
        self.first = (self.size + 1) // 2 - 1
        self.L = self.size - self.first
        self.ref = ref_tree(self.leaves)

    def value(self, node, kind):
        if kind == "G":
            return self.genuine[node]
        if kind == "F":
            return FORGED
        if kind == "E":
            return b""
        if kind == "O":
            if node == 0:
                return self.genuine[1] if self.size > 1 else _sha256d(b"other")
            return self.genuine[node + 1 if node % 2 == 1 else node - 1]
        raise KeyError(kind)

    def fresh(self):
        t = IncompleteHashTree(self.n)
        t.set_hashes({0: self.genuine[0]})
        return t

    def call(self, tree, op):
        """op = {"h": [[node, kind],...], "l": [[leafnum, kind],...]} -> outcome string"""
        hashes = {node: self.value(node, kind) for node, kind in op["h"]}
        leaves = {ln: self.value(self.first + ln, kind) for ln, kind in op["l"]}
        try:
            tree.set_hashes(hashes, leaves=leaves)
        except BadHashError:
            return "BadHashError"
        except NotEnoughHashesError:
            return "NotEnoughHashesError"
        except Exception as e:  # noqa
            return "exc:" + type(e).__name__
        return "ok"

    def build(self, hist):
        t = self.fresh()
        for op in hist:
            r = self.call(t, op)
            if r != "ok":
                raise RuntimeError("history does not replay: %r -> %s" % (op, r))
        return t


def mask_of(tree):
    return tuple(0 if x is None else 1 for x in tree)


# ------------------------------------------------------------------ the oracle for one call
def judge(w, tree, before, op, leafslot, needed_real):
    """Run op on tree (whose slot list is `before`), return (outcome, [(sig, msg)], flags)."""
    outcome = w.call(tree, op)
    after = list(tree)
    bad = []
    flags = []
    supplied = {node: kind for node, kind in op["h"]}
    for ln, kind in op["l"]:
        supplied.setdefault(w.first + ln, kind)
    if outcome == "ok":
        if leafslot is not None:
            lk = supplied.get(w.first + leafslot)
            if lk is not None and w.value(w.first + leafslot, lk) != w.genuine[w.first + leafslot]:
                bad.append(("sound:forged-leaf-accepted", "leaf %d supplied as %s was accepted" % (leafslot, lk)))
        wrong = [i for i, x in enumerate(after) if x is not None and x != w.genuine[i]]
        if wrong:
            bad.append(("sound:non-genuine-node-stored", "after a successful call nodes %r hold values that are not the genuine tree's" % wrong))
        if any(w.value(i, k) != w.genuine[i] for i, k in supplied.items()):
            flags.append("ok_with_nongenuine_input_ignored")
        if any(before[i] is not None and after[i] is None for i in range(w.size)):
            flags.append("ok_forgot_nodes")
        if any(after[i] is None for i in supplied):
            flags.append("ok_supplied_not_remembered")
    else:
        if after != before:
            ch = [i for i in range(w.size) if after[i] != before[i]]
            bad.append(("reject:state-changed", "call raised %s but slots %r changed" % (outcome, ch)))
        if outcome.startswith("exc:"):
            flags.append("other_exception:" + outcome[4:])
    # completeness
    if leafslot is not None and outcome != "ok":
        leafnode = w.first + leafslot
        chain = set(ref_chain(leafnode)) | {leafnode}
        if all(k == "G" for k in supplied.values()) and supplied.get(leafnode) == "G":
            aux = set(supplied) - {leafnode}
            if aux == set(needed_real):
                bad.append(("complete:asked-for-genuine-rejected", "needed_hashes(%d)=%r, supplied exactly those (genuine) + genuine leaf -> %s"
                            % (leafslot, sorted(needed_real), outcome)))
            elif aux >= set(needed_real) and set(supplied) <= chain:
                bad.append(("complete:genuine-superset-rejected", "needed_hashes(%d)=%r, supplied genuine %r + genuine leaf -> %s"
                            % (leafslot, sorted(needed_real), sorted(aux), outcome)))
    return outcome, bad, flags


def leaf_op(w, leafslot, chain_nodes, kinds, extra):
    h, l = [], []
    for node, k in zip(chain_nodes, kinds):
        if k == "A":
            continue
        if node == w.first + leafslot and leafslot < w.n:
            l.append([leafslot, k])
        else:
            h.append([node, k])
    if extra is not None:
        h.append([extra[0], extra[1]])
    return {"h": h, "l": l}


def extras_for(w, leafslot, mode, kindset="GFO"):
    leafnode = w.first + leafslot
    chain = set(ref_chain(leafnode)) | {leafnode}
    if mode == "all":
        xs = [x for x in range(w.size) if x not in chain]
    elif mode == "few":
        xs = [0] if 0 not in chain else []
        ch = ref_chain(leafnode)
        if len(ch) >= 2:
            c = 2 * ch[1] + 1
            if c < w.size and c not in chain:
                xs.append(c)
    else:
        xs = []
    out = [None]
    for x in xs:
        for k in "GFO" + ("E" if "E" in kindset else ""):
            out.append((x, k))
    return out


def explore_state_leaf(w, hist, leafslot, kindset, extra_mode, res):
    """every assignment for one (state, leaf); returns list of (mask, op) successes"""
    tree = w.build(hist)
    before = list(tree)
    leafnode = w.first + leafslot
    chain_nodes = [leafnode] + ref_chain(leafnode)
    # the two "needed hash" computations against the reference
    try:
        real_needed = set(tree.needed_hashes(leafslot))
        real_needed_incl = set(tree.needed_hashes(leafslot, include_leaf=True))
        real_for = list(tree.needed_for(leafnode))
    except Exception as e:  # noqa
        res.violation("needed:exception", {"n": w.n, "history": hist, "leaf": leafslot}, "needed_hashes raised %r" % (e,))
        return []
    want = set(i for i in ref_chain(leafnode) if before[i] is None)
    if real_needed != want or real_for != ref_chain(leafnode) or real_needed_incl != want | ({leafnode} if before[leafnode] is None else set()):
        res.count("obs:needed_differs_from_reference")
    succ = []
    for extra in extras_for(w, leafslot, extra_mode, kindset):
        for kinds in itertools.product(kindset, repeat=len(chain_nodes)):
            op = leaf_op(w, leafslot, chain_nodes, kinds, extra)
            if not op["h"] and not op["l"]:
                continue
            outcome, bad, flags = judge(w, tree, before, op, leafslot, real_needed)
            res.count("transitions")
            res.count("outcome:" + outcome)
            for f in flags:
                res.count("obs:" + f)
            for sig, msg in bad:
                res.violation(sig, {"kind": "call", "n": w.n, "history": hist, "op": op, "leaf": leafslot}, "n=%d state=%r op=%r: %s" % (w.n, mask_of(before), op, msg))
            if outcome == "ok":
                if not bad:
                    succ.append((mask_of(tree), op))
                if list(tree) != before:
                    tree = w.build(hist)
            elif bad:
                tree = w.build(hist)
    # conflicting arguments for the same real leaf
    if leafslot < w.n:
        for (a, b) in (("G", "F"), ("F", "G"), ("F", "O")):
            op = {"h": [[leafnode, a]] + [[c, "G"] for c in ref_chain(leafnode)], "l": [[leafslot, b]]}
            outcome, bad, flags = judge(w, tree, before, op, None, real_needed)
            res.count("transitions")
            res.count("outcome:" + outcome)
            if outcome == "ok":
                bad.append(("sound:conflicting-arguments-accepted", "hashes[%d]=%s and leaves[%d]=%s both given and accepted" % (leafnode, a, leafslot, b)))
                tree = w.build(hist)
            for sig, msg in bad:
                res.violation(sig, {"kind": "call", "n": w.n, "history": hist, "op": op, "leaf": None}, "n=%d state=%r op=%r: %s" % (w.n, mask_of(before), op, msg))
    return succ


def explore_expands(w, hist, res):
    tree = w.build(hist)
    before = list(tree)
    succ = []
    for x in range(w.first):
        lc, rc = 2 * x + 1, 2 * x + 2
        if before[x] is not None and before[lc] is None and before[rc] is None:
            op = {"h": [[lc, "G"], [rc, "G"]], "l": []}
            outcome, bad, flags = judge(w, tree, before, op, None, ())
            res.count("transitions")
            res.count("outcome:" + outcome)
            if outcome != "ok":
                bad.append(("complete:genuine-children-rejected", "genuine children of populated node %d rejected: %s" % (x, outcome)))
            for sig, msg in bad:
                res.violation(sig, {"kind": "call", "n": w.n, "history": hist, "op": op, "leaf": None}, "n=%d state=%r op=%r: %s" % (w.n, mask_of(before), op, msg))
            if outcome == "ok" and not bad:
                succ.append((mask_of(tree), op))
            tree = w.build(hist)
    return succ


_WORLDS = {}


def _world(n, seed):
    if (n, seed) not in _WORLDS:
        _WORLDS[(n, seed)] = World(n, seed)
    return _WORLDS[(n, seed)]


def _level_chunk(chunk, seed, plan):
    """chunk items: (n, hist, leafslot)  (leafslot -1 = expand ops, -2 = order walks for tree size n)"""
    res = common.Result()
    out = []
    for (n, hist, leafslot) in chunk:
        w = _world(n, seed)
        if leafslot == -2:
            res.merge(_orders_chunk([n], seed))
            continue
        kindset, extra_mode = plan[str(n)]
        if leafslot == -1:
            succ = explore_expands(w, hist, res)
        else:
            succ = explore_state_leaf(w, hist, leafslot, kindset, extra_mode, res)
        seen = set()
        for mask, op in succ:
            if mask not in seen:
                seen.add(mask)
                out.append([n, list(mask), hist + [op]])
    res.notes["succ"] = out
    return res


def closure_all(plan, seed, big, res):
    """level-synchronous BFS for all tree sizes at once (one fork/join per level)"""
    seen, frontier, worlds = {}, {}, {}
    for n in sorted(int(k) for k in plan):
        w = worlds[n] = World(n, seed)
        if w.genuine != w.ref:
            res.violation("hashtree:differs-from-reference", {"kind": "tree", "n": n},
                          "HashTree over %d leaves differs from the independent computation at nodes %r"
                          % (n, [i for i in range(w.size) if w.genuine[i] != w.ref[i]]))
        root = mask_of(w.fresh())
        seen[n] = {root: []}
        frontier[n] = [root]
    depth = 0
    extra_items = [(n, [], -2) for n in big]
    while any(frontier.values()):
        items = []
        for n in sorted(frontier, reverse=True):
            for m in frontier[n]:
                items.append((n, seen[n][m], -1))
                for l in range(worlds[n].L):
                    items.append((n, seen[n][m], l))
        # interleave so that contiguous chunks carry similar weight
        items = extra_items + items
        extra_items = []
        nchunks = min(len(items), common.NWORKERS * 8)
        items = [it for r in range(nchunks) for it in items[r::nchunks]]
        part = common.pmap(_level_chunk, items, (seed, plan))
        succ = part.notes.pop("succ", [])
        res.merge(part)
        frontier = {n: [] for n in frontier}
        for n, mask, hist in succ:
            mask = tuple(mask)
            if mask not in seen[n]:
                seen[n][mask] = hist
                frontier[n].append(mask)
            res.count("edges_to_states")
        depth += 1
    res.notes["bfs_levels"] = depth
    per_n = {}
    for n in sorted(seen):
        per_n[str(n)] = len(seen[n])
        if tuple([1] * worlds[n].size) not in seen[n]:
            res.violation("closure:full-tree-unreachable", {"kind": "tree", "n": n}, "the fully populated tree was never reached for n=%d" % n)
    nmax = max(seen)
    mid = sorted(seen[nmax])[len(seen[nmax]) // 2]
    res.sample({"n": nmax, "state_mask": list(mid), "shortest_history": seen[nmax][mid]})
    return per_n


# ------------------------------------------------------------------ orders on larger trees
def orders(n):
    asc = list(range(n))
    bits = max(1, (n - 1).bit_length())
    bitrev = sorted(asc, key=lambda i: int(format(i, "0%db" % bits)[::-1], 2))
    mid = n // 2
    midout = sorted(asc, key=lambda i: (abs(i - mid), i))
    return {
        "ascending": asc,
        "descending": asc[::-1],
        "evens-then-odds": asc[0::2] + asc[1::2],
        "bit-reversed": bitrev,
        "middle-out": midout,
        "outside-in": midout[::-1],
    }


def walk_order(w, name, order, res):
    tree = w.fresh()
    for step, l in enumerate(order):
        before = list(tree)
        leafnode = w.first + l
        needed = sorted(tree.needed_hashes(l))
        base = {"h": [[i, "G"] for i in needed], "l": [[l, "G"]]}
        variants = [("forged-leaf", {"h": base["h"], "l": [[l, "F"]]}), ("swapped-leaf", {"h": base["h"], "l": [[l, "O"]]})]
        for i in needed:
            variants.append(("forged-aux", {"h": [[j, "F" if j == i else "G"] for j in needed], "l": [[l, "G"]]}))
            variants.append(("swapped-aux", {"h": [[j, "O" if j == i else "G"] for j in needed], "l": [[l, "G"]]}))
            variants.append(("missing-aux", {"h": [[j, "G"] for j in needed if j != i], "l": [[l, "G"]]}))
        variants.append(("genuine", base))
        for vname, op in variants:
            outcome, bad, flags = judge(w, tree, before, op, l, needed)
            res.count("transitions")
            res.count("order-outcome:%s:%s" % (vname, outcome))
            if outcome == "ok" and vname in ("forged-aux", "swapped-aux") and not bad:
                # a forged auxiliary hash must never end up stored; judge() checks stored==genuine
                res.count("obs:ok_with_forged_aux")
            for sig, msg in bad:
                res.violation(sig, {"kind": "order", "n": w.n, "order": name, "step": step}, "n=%d order=%s step=%d leaf=%d variant=%s: %s" % (w.n, name, step, l, vname, msg))
            if vname != "genuine" and list(tree) != before:
                tree[:] = before  # restore with plain list assignment (no code under test)
        if before[leafnode] is None and tree[leafnode] != w.genuine[leafnode]:
            res.violation("complete:leaf-not-stored", {"kind": "order", "n": w.n, "order": name, "step": step}, "leaf %d not stored after successful validation" % l)
    if [x for x in tree] != w.genuine:
        # after every real leaf was validated every node on a path to a real leaf is known
        missing = [i for i in range(w.size) if tree[i] is None]
        real_paths = set()
        for l in range(w.n):
            node = w.first + l
            real_paths.add(node)
            real_paths.update(ref_chain(node))
            while node:
                node = (node - 1) // 2
                real_paths.add(node)
        if any(i in real_paths for i in missing) or any(tree[i] is not None and tree[i] != w.genuine[i] for i in range(w.size)):
            res.violation("order:final-tree-wrong", {"kind": "order", "n": w.n, "order": name, "step": len(order)}, "after validating all leaves nodes %r are missing" % missing)
    res.count("order_steps", len(order))


def _orders_chunk(chunk, seed):
    res = common.Result()
    for n in chunk:
        w = World(n, seed)
        if w.genuine != w.ref:
            res.violation("hashtree:differs-from-reference", {"kind": "tree", "n": n}, "HashTree over %d leaves differs from the independent computation" % n)
        for name, order in sorted(orders(n).items()):
            walk_order(w, name, order, res)
            res.count("orders_walked")
    return res


# ------------------------------------------------------------------ replay / run
def replay(case):
    from .. import boot
    seed = boot.SEED
    res = common.Result()
    k = case["kind"]
    if k == "tree":
        w = World(case["n"], seed)
        return [("hashtree:differs-from-reference", "differs")] if w.genuine != w.ref else []
    if k == "order":
        w = World(case["n"], seed)
        walk_order(w, case["order"], orders(case["n"])[case["order"]], res)
        return [(v["sig"], v["msg"]) for v in res.violations]
    w = World(case["n"], seed)
    tree = w.build(case["history"])
    before = list(tree)
    leaf = case.get("leaf")
    needed = set(tree.needed_hashes(leaf)) if leaf is not None else ()
    outcome, bad, flags = judge(w, tree, before, case["op"], leaf, needed)
    if leaf is None and outcome == "ok" and case["op"]["l"]:
        bad.append(("sound:conflicting-arguments-accepted", "accepted"))
    if leaf is None and outcome != "ok" and not case["op"]["l"]:
        bad.append(("complete:genuine-children-rejected", outcome))
    return bad


def run(tier, seed):
    res = common.Result()
    plan = []
    if tier == "quick":
        for n in range(1, 5):
            plan.append((n, "GFAOE", "all"))
        for n in range(5, 8):
            plan.append((n, "GFAO", "none"))
        plan.append((8, "GFAO", "all"))
        big = [9, 12, 16, 17, 31, 32, 33, 48, 63, 64]
    else:
        for n in range(1, 9):
            plan.append((n, "GFAOE", "all"))
        for n in (9, 12, 13):
            plan.append((n, "GFAO", "none"))
        plan.append((16, "GFAO", "few"))
        big = list(range(9, 65)) + [100, 127, 128, 129, 255, 256]
    per_n = closure_all({str(n): [kinds, mode] for n, kinds, mode in plan}, seed, big, res)
    closure_states = sum(per_n.values())
    outcomes = {k[8:]: v for k, v in res.counts.items() if k.startswith("outcome:")}
    cov = {
        "states": closure_states,
        "transitions": res.counts.get("transitions", 0),
        "traces_validated_against_impl": res.counts.get("transitions", 0),
        "exhaustive": True,
        "closure_states_per_n": per_n,
        "distinct_outcomes": outcomes,
        "order_walk_steps": res.counts.get("order_steps", 0),
        "orders_walked": res.counts.get("orders_walked", 0),
        "rule": "closure: every population state of IncompleteHashTree(n) reachable from {root} for n in %s; in every state every leaf slot x every assignment of %s to needed_for(leaf)+leaf x (nothing | one further node in G/F/O; scope per n: %s) + expand-x + conflicting-argument calls; every call is a run of the real set_hashes, so traces = transitions. order walks: n in %s, orders ascending/descending/evens-then-odds/bit-reversed/middle-out/outside-in, per step genuine + forged/swapped leaf + forged/swapped/missing each needed hash"
                % ([p[0] for p in plan], "/".join(sorted(set("".join(p[1] for p in plan)))), {str(p[0]): p[1] + ":" + p[2] for p in plan}, big),
    }
    return res, cov


MANIFEST = {
    "engine": "H",
    "technique": "explicit-state reachability closure over the population states of a real IncompleteHashTree, every adversarial set_hashes call applied in every state, stepped against a symbolic genuine-tree reference",
    "text": "All population states reachable from {trusted root} for trees of 1..8 leaves (thorough also 9, 12, 13, 16) are enumerated to closure; in each state every leaf is offered with every genuine/forged/absent/other-node/empty assignment over its hash chain plus one further node, on the real set_hashes. Success must imply a genuine leaf and only genuine stored nodes, the asked-for genuine hashes must be accepted, and a rejection must leave the slot list untouched. Closed families of validation orders cover trees up to 64 (thorough 256) leaves.",
    "note": "Hashes are distinct symbols (no SHA-256d collisions). HashTree itself is cross-checked against an independent hashlib computation. Every transition is an implementation run, so traces_validated_against_impl = transitions. Which exception type is raised is only counted.",
}
