"""C38  On-disk and wire encodings round-trip  (Engine E, exhaustive small domains + closed mutation catalogues).

Codecs under test (all real code): util/base32 b2a/a2b, util/base62 b2a/a2b,
util/netstring netstring/split_netstring, uri.pack_extension/unpack_extension,
storage/lease.LeaseInfo.{to,from}_{immutable,mutable}_data with the v1/v2 serialisers of
storage/lease_schema, the container headers of storage/immutable_schema and
storage/mutable_schema as read back by ShareFile / MutableShareFile.

For every codec:
  round trip   decode(encode(v)) == v for EVERY v of an explicit finite value domain;
  malformed    for EVERY m of a closed catalogue (all short strings over a small alphabet
               as raw decoder input; every single-character insert/delete/replace mutation
               of valid encodings; every truncation; structural mutations) the decoder must
                 raise (any exception type: counted), or
                 return v' with encode(v') == m   (m is simply another valid encoding), or
                 return the value v that m was derived from (lenient, counted as
                 `lenient-same-value`, NOT a violation: the statement only forbids reading a
                 *different* value);
               accepted + not re-encodable to m + different value  => violation.
Signatures name the codec and the class of malformed input that was accepted.
"""
import itertools
import os
import shutil
import struct

from allmydata.util import base32, base62
from allmydata.util.netstring import netstring, split_netstring
from allmydata import uri
from allmydata.storage.lease import LeaseInfo, HashedLeaseInfo
from allmydata.storage import lease_schema, immutable_schema, mutable_schema
from .. import common

LEVEL = "exploration"
ASSUMPTIONS = [
    "small scope: byte strings of length <= 2 exhaustively and patterned strings up to length 40; raw decoder inputs over a 10-symbol alphabet up to length 5 (base32) / 14 symbols up to length 3 (base62); single-character corruptions of the encodings of every 1-byte value, 36 2-byte values and 32 patterned values of 3..10 bytes, with every byte value tried in the final position",
    "mutations are single-character (insert/delete/replace with one of 0 1 9 : , + space _ -), every truncation, and the listed structural mutations; multi-character corruptions are outside",
    "lease expiry given as float is truncated to whole seconds by design of the 32-bit field; counted, not a violation",
    "UEB values: the eleven fields the encoder writes, with edge values; unknown extra keys only through mutation",
]

MUT_CHARS = b"019:,+ _-"


# ------------------------------------------------------------------ generic classification
def classify(decode, encode, m, v):
    """-> (kind, detail). kind in rejected:<Exc>, canonical, lenient-same-value, other-valid, ACCEPTED-DIFFERENT"""
    try:
        v2 = decode(m)
    except Exception as e:  # noqa
        return "rejected:" + type(e).__name__, None
    try:
        m2 = encode(v2)
    except Exception as e:  # noqa
        m2 = ("not-encodable", type(e).__name__)
    if m2 == m:
        return ("canonical" if v is not None and v2 == v else "other-valid"), v2
    if v is not None and v2 == v:
        return "lenient-same-value", v2
    return "ACCEPTED-DIFFERENT", (v2, m2)


def mutations(m):
    """every single-character insert / delete / replace; yields (description, bytes)"""
    seen = {m}
    for i in range(len(m) + 1):
        for c in MUT_CHARS:
            x = m[:i] + bytes([c]) + m[i:]
            if x not in seen:
                seen.add(x)
                yield ("insert", i, chr(c)), x
    for i in range(len(m)):
        x = m[:i] + m[i + 1:]
        if x not in seen:
            seen.add(x)
            yield ("delete", i, ""), x
        for c in MUT_CHARS:
            x = m[:i] + bytes([c]) + m[i + 1:]
            if x not in seen:
                seen.add(x)
                yield ("replace", i, chr(c)), x


def _short(x, n=160):
    r = repr(x)
    return r if len(r) <= n else r[:n // 2] + " ... " + r[-n // 2:]


def patterned(maxlen):
    out = []
    for n in range(3, maxlen + 1):
        out.append(b"\x00" * n)
        out.append(b"\xff" * n)
        out.append(bytes((i * 37 + n) % 256 for i in range(n)))
        out.append(b"\x00" * (n - 1) + b"\x01")
        out.append(b"\x80" + b"\x00" * (n - 1))
    return out


# ------------------------------------------------------------------ base32 / base62
B32_ALPHA = [b"a", b"b", b"c", b"e", b"i", b"q", b"7", b"1", b"A", b"="]
B62_ALPHA = [b"0", b"1", b"3", b"4", b"7", b"8", b"9", b"A", b"Z", b"a", b"z", b"-", b"=", b" "]


def b32_sig(m, kind):
    if any(c not in base32.chars for c in m):
        return "base32:non-alphabet-accepted"
    return "base32:noncanonical-tail-accepted"


def b62_sig(m, kind):
    if any(c not in base62.chars for c in m):
        return "base62:non-alphabet-accepted"
    return "base62:out-of-range-accepted"


def basex_values():
    vals = [b""] + [bytes([a]) for a in range(256)]
    edge = (0x00, 0x01, 0x08, 0x10, 0x80, 0xff)
    vals += [bytes([a, b]) for a in edge for b in edge]
    for n in range(3, 11):
        vals += [b"\x00" * n, b"\xff" * n, bytes((i * 37 + n) % 256 for i in range(n)), b"\x00" * (n - 1) + b"\x01"]
    return vals


def basex_mutations(m, alpha):
    seen = {m}
    for i in range(len(m) + 1):
        for c in alpha:
            x = m[:i] + c + m[i:]
            if x not in seen:
                seen.add(x)
                yield ("insert", i, c), x
    for i in range(len(m)):
        x = m[:i] + m[i + 1:]
        if x not in seen:
            seen.add(x)
            yield ("delete", i, b""), x
        for c in (alpha if i < len(m) - 1 else [bytes([k]) for k in range(256)]):
            x = m[:i] + c + m[i + 1:]
            if x not in seen:
                seen.add(x)
                yield ("replace", i, c), x


def basex_witness(mod, m):
    """m is accepted but not canonical.  Is it a one-character corruption of a VALID encoding
    of a different value?  returns (valid_encoding, its_value) or None"""
    got = mod.a2b(m)
    for i in range(len(m)):
        for c in mod.chars:
            m1 = m[:i] + bytes([c]) + m[i + 1:]
            if m1 == m:
                continue
            try:
                v1 = mod.a2b(m1)
                if mod.b2a(v1) == m1 and v1 != got:
                    return m1, v1
            except Exception:  # noqa
                pass
    return None


def job_basex(job, res):
    name, part = job["codec"], job["part"]
    mod = base32 if name == "base32" else base62
    sigf = b32_sig if name == "base32" else b62_sig
    alpha = B32_ALPHA if name == "base32" else B62_ALPHA
    if part == "roundtrip":
        vals = [b""] + [bytes([a]) for a in range(256)]
        vals += [bytes([a, b]) for a in range(256) for b in range(256)] + patterned(40)
        for v in vals:
            res.count("evaluations")
            try:
                m = mod.b2a(v)
                back = mod.a2b(m)
            except Exception as e:  # noqa
                res.violation("%s:roundtrip-raised:%s" % (name, type(e).__name__), {"sec": name, "part": part, "v": v}, "%s round trip of %r raised %r" % (name, v, e))
                continue
            if len(v) >= 1:
                res.count("nontrivial")
            if back != v or any(c not in mod.chars for c in m):
                res.violation("%s:roundtrip-mismatch" % name, {"sec": name, "part": part, "v": v}, "%s: b2a(%r)=%r, a2b of that = %r" % (name, v, m, back))
        res.sample({"codec": name, "value": vals[300], "encoded": mod.b2a(vals[300])})
        return
    if part == "mutations":
        for v in basex_values():
            m0 = mod.b2a(v)
            for desc, m in basex_mutations(m0, alpha):
                res.count("evaluations")
                res.count("nontrivial")
                kind, detail = classify(mod.a2b, mod.b2a, m, v)
                res.count("%s:mut:%s" % (name, kind.split(":")[0]))
                res.distinct.add((name, "mut", kind))
                if kind == "ACCEPTED-DIFFERENT":
                    res.violation(sigf(m, kind), {"sec": name, "part": "mut", "v": v, "m": m},
                                  "%s: b2a(%r)=%r corrupted (%s) to %r is accepted by a2b as %r (whose encoding is %r)" % (name, v, m0, desc, m, detail[0], detail[1]))
        return
    # raw decoder inputs: every string over the small alphabet
    maxlen = (5 if name == "base32" else 3) + (1 if job.get("tier") == "thorough" else 0)
    inputs = [b"".join(t) for n in range(0, maxlen + 1) for t in itertools.product(alpha, repeat=n)]
    for m in inputs:
        res.count("evaluations")
        res.count("nontrivial")
        kind, detail = classify(mod.a2b, mod.b2a, m, None)
        res.count("%s:raw:%s" % (name, kind.split(":")[0]))
        res.distinct.add((name, "raw", kind))
        if kind == "ACCEPTED-DIFFERENT":
            # accepted although no encoder produces it.  A violation of the statement if it is a
            # one-character corruption of a valid encoding of ANOTHER value (else merely lenient).
            wit = basex_witness(mod, m)
            if wit is None:
                res.count("%s:raw:lenient-no-different-neighbour" % name)
                continue
            res.violation(sigf(m, kind), {"sec": name, "part": "raw", "m": m},
                          "%s.a2b(%r) = %r although b2a never produces it (b2a of that is %r); it is a one-character corruption of %r = b2a(%r), so that value is silently misread"
                          % (name, m, detail[0], detail[1], wit[0], wit[1]))


def replay_basex(case):
    name = case["sec"]
    mod = base32 if name == "base32" else base62
    sigf = b32_sig if name == "base32" else b62_sig
    if case.get("part") == "roundtrip":
        v = case["v"]
        try:
            ok = mod.a2b(mod.b2a(v)) == v
        except Exception as e:  # noqa
            return [("%s:roundtrip-raised:%s" % (name, type(e).__name__), repr(e))]
        return [] if ok else [("%s:roundtrip-mismatch" % name, "mismatch")]
    m = case["m"]
    kind, detail = classify(mod.a2b, mod.b2a, m, case.get("v"))
    if kind == "ACCEPTED-DIFFERENT" and (case.get("part") == "mut" or basex_witness(mod, m)):
        return [(sigf(m, kind), "a2b(%r)=%r re-encodes to %r" % (m, detail[0], detail[1]))]
    return []


# ------------------------------------------------------------------ netstrings
def ns_decode_strict(n):
    def dec(m):
        els, pos = split_netstring(m, n, required_trailer=b"")
        return [bytes(e) for e in els]
    return dec


def ns_decode_lax(n):
    def dec(m):
        els, pos = split_netstring(m, n)
        return ([bytes(e) for e in els], m[pos:])
    return dec


def ns_encode_strict(v):
    return b"".join(netstring(e) for e in v)


def ns_encode_lax(v):
    return b"".join(netstring(e) for e in v[0]) + v[1]


def ns_strict_prefix_ok(m, n):
    """do the first n netstrings of m have canonical decimal lengths? (independent tokenizer)"""
    import re
    pos = 0
    for _ in range(n):
        mo = re.compile(br"(0|[1-9][0-9]*):").match(m, pos)
        if not mo:
            return False
        ln = int(mo.group(1))
        end = mo.end() + ln
        if end >= len(m) or m[end:end + 1] != b",":
            return False
        pos = end + 1
    return True


def ns_sig(mode, n, m, v2):
    if not ns_strict_prefix_ok(m, n):
        return "netstring:%s:noncanonical-length-read-as-different-value" % mode
    return "netstring:%s:malformed-accepted-as-different-value" % mode


def ns_values():
    alpha = [b"a", b",", b":", b"1"]
    vals = [b"".join(t) for n in range(0, 5) for t in itertools.product(alpha, repeat=n)]
    vals += [b"abcdefghi", b"abcdefghij", b"abcdefghijk", b"a,cdefghij", b"1:a,efghijk", b",,,,,,,,,,", b"0123456789a"]
    return vals


def job_netstring(job, res):
    vals = ns_values()
    lo, hi = job["range"]
    for idx in range(lo, min(hi, len(vals))):
        v = vals[idx]
        for tup in ([v], [v, b"x1"], [b"", v]):
            n = len(tup)
            m0 = ns_encode_strict(tup)
            for mode, dec, enc, orig in (("strict", ns_decode_strict(n), ns_encode_strict, tup), ("lax", ns_decode_lax(n), ns_encode_lax, (tup, b""))):
                res.count("evaluations")
                kind, detail = classify(dec, enc, m0, orig)
                if kind != "canonical":
                    res.violation("netstring:%s:roundtrip" % mode, {"sec": "netstring", "mode": mode, "n": n, "m": m0, "orig": tup},
                                  "split_netstring(%r, %d) -> %s %r, expected %r" % (m0, n, kind, detail, tup))
                for desc, m in mutations(m0):
                    res.count("evaluations")
                    res.count("nontrivial")
                    kind, detail = classify(dec, enc, m, orig)
                    res.count("netstring:%s:%s" % (mode, kind.split(":")[0]))
                    res.distinct.add(("netstring", mode, kind))
                    if kind == "ACCEPTED-DIFFERENT":
                        res.violation(ns_sig(mode, n, m, detail), {"sec": "netstring", "mode": mode, "n": n, "m": m, "orig": tup},
                                      "netstring(%r)=%r mutated (%s) to %r is accepted by split_netstring (%s) as %r, which re-encodes to %r"
                                      % (v, m0, desc, m, mode, detail[0], detail[1]))
        if idx == 77:
            res.sample({"codec": "netstring", "value": v, "encoded": netstring(v), "mutants": len(list(mutations(netstring(v))))})


def replay_netstring(case):
    n, m, mode = case["n"], case["m"], case["mode"]
    orig = [bytes(x) for x in case["orig"]]
    if mode == "strict":
        kind, detail = classify(ns_decode_strict(n), ns_encode_strict, m, orig)
    else:
        kind, detail = classify(ns_decode_lax(n), ns_encode_lax, m, (orig, b""))
    if kind == "ACCEPTED-DIFFERENT":
        return [(ns_sig(mode, n, m, detail), "%r accepted as %r" % (m, detail[0]))]
    if m == ns_encode_strict(orig) and kind != "canonical":
        return [("netstring:%s:roundtrip" % mode, kind)]
    return []


# ------------------------------------------------------------------ URI extension block
H0, HF = b"\x00" * 32, b"\xff" * 32
HN = (b"3:abc,size:1:7," * 3)[:32]           # a "hash" that looks like netstrings / UEB fields
INTS = [0, 1, 9, 10, 255, 2 ** 32 - 1, 2 ** 32, 2 ** 64, 10 ** 20]


def ueb_values():
    out = []
    # every subset of a small field set (the decoder has no required fields)
    small = {"size": 10, "codec_name": b"crs", "share_root_hash": b"h:1,"}
    for r in range(0, 4):
        for keys in itertools.combinations(sorted(small), r):
            out.append({k: small[k] for k in keys})
    for i, n in enumerate(INTS):
        for h in (H0, HF, HN, bytes(range(32))):
            k, N = (1, 1) if i % 3 == 0 else ((3, 10) if i % 3 == 1 else (255, 256))
            out.append({
                "codec_name": b"crs", "codec_params": b"%d-%d-%d" % (n, k, N), "tail_codec_params": b"%d-%d-%d" % (INTS[-1 - i], k, N),
                "size": n, "segment_size": INTS[(i + 1) % len(INTS)], "num_segments": INTS[(i + 2) % len(INTS)],
                "needed_shares": k, "total_shares": N,
                "crypttext_hash": h, "crypttext_root_hash": h[::-1], "share_root_hash": HN if h is not HN else H0,
            })
    return out


def ueb_strict_tokens(m):
    """independent strict tokenizer: key ':' canonical-decimal ':' bytes ','  -> [(key, value)] or None"""
    import re
    out = []
    pos = 0
    while pos < len(m):
        mo = re.compile(br"([a-zA-Z_\-]+):(0|[1-9][0-9]*):").match(m, pos)
        if not mo:
            return None
        n = int(mo.group(2))
        val = m[mo.end():mo.end() + n]
        if len(val) != n or m[mo.end() + n:mo.end() + n + 1] != b",":
            return None
        out.append((mo.group(1).decode("ascii"), val))
        pos = mo.end() + n + 1
    return out


def ueb_encoder_for(m):
    """pack_extension, except that field ORDER is not treated as part of the value: if m is a
    strictly well-formed sequence of distinct fields, re-encode in m's order"""
    def enc(v2):
        canon = uri.pack_extension(v2)
        if canon == m:
            return canon
        toks = ueb_strict_tokens(m)
        if toks is None:
            return canon
        keys = [k for k, _ in toks]
        if len(set(keys)) != len(keys) or set(keys) != set(v2):
            return canon
        return b"".join(uri.pack_extension({k: v2[k]}) for k in keys)
    return enc


def ueb_norm(d):
    return {str(k): v for k, v in d.items()}


def ueb_sig(desc, m, v2, orig):
    kind = desc[0]
    if kind in ("duplicate-field", "unsorted-fields"):
        return "ueb:%s-accepted" % kind
    if isinstance(v2, dict):
        import re
        if any(not re.match(r"^[a-zA-Z_\-]+$", k) for k in v2):
            return "ueb:invalid-key-accepted"
        for k in ("size", "segment_size", "num_segments", "needed_shares", "total_shares"):
            if k in v2 and not isinstance(v2[k], int):
                return "ueb:int-field-not-int"
        if set(v2) == set(orig) and any(isinstance(v2[k], int) and v2[k] != orig.get(k) for k in v2):
            return "ueb:noncanonical-int-accepted-as-different-value"
    return "ueb:malformed-accepted-as-different-value"


def ueb_structural(v, m0):
    """closed structural catalogue: truncations, trailing junk, duplicate / reordered fields"""
    for cut in range(len(m0)):
        yield ("truncate", cut), m0[:cut]
    for junk in (b"\n", b" ", b",", b"x", b"size", b"\x00"):
        yield ("trailing", junk), m0 + junk
    keys = sorted(v)
    if keys:
        k = keys[0]
        yield ("duplicate-field", k), m0 + uri.pack_extension({k: 7 if isinstance(v[k], int) else b"dup"})
    if len(keys) >= 2:
        pieces = [uri.pack_extension({k: v[k]}) for k in reversed(keys)]
        yield ("unsorted-fields", ""), b"".join(pieces)


def job_ueb(job, res):
    vals = ueb_values()
    lo, hi = job["range"]
    for idx in range(lo, min(hi, len(vals))):
        v = vals[idx]
        try:
            m0 = uri.pack_extension(v)
        except Exception as e:  # noqa
            res.violation("ueb:pack-raised", {"sec": "ueb", "orig": v, "m": None, "desc": ["pack"]}, "pack_extension(%r) raised %r" % (v, e))
            continue
        res.count("evaluations")
        kind, detail = classify(uri.unpack_extension, uri.pack_extension, m0, ueb_norm(v))
        if kind != "canonical":
            res.violation("ueb:roundtrip", {"sec": "ueb", "orig": v, "m": m0, "desc": ["roundtrip"]}, "unpack_extension(pack_extension(%r)) -> %s %r" % (v, kind, detail))
        if len(v) >= 2:
            res.count("nontrivial")
        muts = list(ueb_structural(v, m0))
        if len(m0) <= 60 or idx % 12 == 0 or job.get("tier") == "thorough":
            muts = itertools.chain(muts, mutations(m0))
        for desc, m in muts:
            res.count("evaluations")
            res.count("nontrivial")
            kind, detail = classify(uri.unpack_extension, ueb_encoder_for(m), m, ueb_norm(v))
            res.count("ueb:%s" % kind.split(":")[0])
            if desc[0] == "unsorted-fields" and kind == "canonical":
                res.count("ueb:unsorted-fields-accepted-same-value")
            res.distinct.add(("ueb", kind))
            if kind == "lenient-same-value":
                res.count("ueb:lenient:%s" % desc[0])
            if kind == "ACCEPTED-DIFFERENT":
                res.violation(ueb_sig(desc, m, detail[0], ueb_norm(v)), {"sec": "ueb", "orig": v, "m": m, "desc": list(desc)},
                              "UEB %s (from %s by %s) is accepted as %s, which %s"
                              % (_short(m), _short(m0), desc, _short(detail[0]), ("re-encodes to %s" % (_short(detail[1]),)) if isinstance(detail[1], bytes) else "cannot be re-encoded (%r)" % (detail[1],)))
        if idx == 7:
            res.sample({"codec": "ueb", "value": v, "encoded": m0})


def replay_ueb(case):
    v = case["orig"]
    m = case["m"]
    if m is None:
        try:
            uri.pack_extension(v)
            return []
        except Exception as e:  # noqa
            return [("ueb:pack-raised", repr(e))]
    kind, detail = classify(uri.unpack_extension, uri.pack_extension if case["desc"][0] == "roundtrip" else ueb_encoder_for(m), m, ueb_norm(v))
    if case["desc"][0] == "roundtrip":
        return [] if kind == "canonical" else [("ueb:roundtrip", kind)]
    if kind == "ACCEPTED-DIFFERENT":
        return [(ueb_sig(case["desc"], m, detail[0], ueb_norm(v)), "%r accepted as %r" % (m, detail[0]))]
    return []


# ------------------------------------------------------------------ lease records
SECRETS = [b"\x00" * 32, b"\xff" * 32, bytes(range(32)), b"r" * 32]
NODEIDS = [b"\x00" * 20, b"\xff" * 20, bytes(range(20))]
U32 = [0, 1, 2 ** 31, 2 ** 32 - 1]


def lease_fields(lease):
    return (lease.owner_num, lease.renew_secret, lease.cancel_secret, lease.get_expiration_time(), lease.nodeid)


def job_lease(job, res):
    n = 0
    for owner, exp, rs, cs, nid in itertools.product(U32, U32 + [1.5, 2 ** 32 - 0.5], SECRETS, SECRETS[:2], NODEIDS):
        lease = LeaseInfo(owner_num=owner, renew_secret=rs, cancel_secret=cs, expiration_time=exp, nodeid=nid)
        case = {"sec": "lease", "owner": owner, "exp": exp, "rs": rs, "cs": cs, "nid": nid}
        for bad in lease_check_one(lease):
            res.violation(bad[0], case, "LeaseInfo(owner=%r, expiry=%r, nodeid=%r): %s" % (owner, exp, nid, bad[1]))
        res.count("evaluations", 6)
        if owner or exp:
            res.count("nontrivial")
        if isinstance(exp, float):
            res.count("lease:float-expiry-truncated-to-int")
        n += 1
    # out-of-range fields must be refused by the encoder, not wrapped
    for owner, exp in ((2 ** 32, 1), (-1, 1), (1, 2 ** 32), (1, -1)):
        lease = LeaseInfo(owner_num=owner, renew_secret=SECRETS[2], cancel_secret=SECRETS[3], expiration_time=exp, nodeid=NODEIDS[2])
        for fmt, to, frm in (("immutable", lease.to_immutable_data, LeaseInfo.from_immutable_data), ("mutable", lease.to_mutable_data, LeaseInfo.from_mutable_data)):
            res.count("evaluations")
            try:
                data = to()
            except Exception as e:  # noqa
                res.count("lease:out-of-range-refused:" + type(e).__name__)
                continue
            back = frm(data)
            if (back.owner_num, back.get_expiration_time()) != (owner, exp):
                res.violation("lease:out-of-range-wrapped", {"sec": "lease-range", "owner": owner, "exp": exp, "fmt": fmt},
                              "%s lease owner=%r expiry=%r was encoded without error and reads back as owner=%r expiry=%r" % (fmt, owner, exp, back.owner_num, back.get_expiration_time()))
    # malformed records: every truncation / one-byte extension
    lease = LeaseInfo(owner_num=1, renew_secret=SECRETS[2], cancel_secret=SECRETS[3], expiration_time=77, nodeid=NODEIDS[2])
    for fmt, data, sers in (("immutable", lease.to_immutable_data(), (LeaseInfo.from_immutable_data, lease_schema.v1_immutable.unserialize, lease_schema.v2_immutable.unserialize)),
                            ("mutable", lease.to_mutable_data(), (LeaseInfo.from_mutable_data, lease_schema.v1_mutable.unserialize, lease_schema.v2_mutable.unserialize))):
        for m in [data[:i] for i in range(len(data))] + [data + b"\x00", data + data]:
            for f in sers:
                res.count("evaluations")
                res.count("nontrivial")
                try:
                    got = f(m)
                except Exception as e:  # noqa
                    res.count("lease:wrong-length-rejected:" + type(e).__name__)
                    continue
                res.violation("lease:wrong-length-accepted", {"sec": "lease-len", "fmt": fmt, "m": m}, "%s lease record of %d bytes (valid: %d) accepted as %r" % (fmt, len(m), len(data), got))
    res.sample({"codec": "lease", "immutable_record": lease.to_immutable_data(), "fields": [1, 77]})


def lease_check_one(lease):
    bad = []
    owner, rs, cs, exp, nid = lease_fields(lease)
    iexp = int(exp)
    # raw formats
    try:
        b = LeaseInfo.from_immutable_data(lease.to_immutable_data())
        if lease_fields(b) != (owner, rs, cs, iexp, None):
            bad.append(("lease:immutable-roundtrip", "immutable record reads back as %r" % (lease_fields(b),)))
        b = LeaseInfo.from_mutable_data(lease.to_mutable_data())
        if lease_fields(b) != (owner, rs, cs, iexp, nid):
            bad.append(("lease:mutable-roundtrip", "mutable record reads back as %r" % (lease_fields(b),)))
        if len(lease.to_immutable_data()) != lease.immutable_size() or len(lease.to_mutable_data()) != lease.mutable_size():
            bad.append(("lease:size", "record size differs from *_size()"))
        # v1 serialisers (cleartext)
        for name, ser, want_nid in (("v1_immutable", lease_schema.v1_immutable, None), ("v1_mutable", lease_schema.v1_mutable, nid)):
            b = ser.unserialize(ser.serialize(lease))
            if lease_fields(b) != (owner, rs, cs, iexp, want_nid):
                bad.append(("lease:%s-roundtrip" % name, "reads back as %r" % (lease_fields(b),)))
        # v2 serialisers (hashed secrets): the record must recognise exactly the original secrets
        for name, ser, want_nid in (("v2_immutable", lease_schema.v2_immutable, None), ("v2_mutable", lease_schema.v2_mutable, nid)):
            data = ser.serialize(lease)
            b = ser.unserialize(data)
            if not isinstance(b, HashedLeaseInfo):
                bad.append(("lease:%s-type" % name, "unserialize returned %r" % (type(b),)))
                continue
            if (b.owner_num, b.get_expiration_time(), b.nodeid) != (owner, iexp, want_nid):
                bad.append(("lease:%s-roundtrip" % name, "reads back as owner=%r expiry=%r nodeid=%r" % (b.owner_num, b.get_expiration_time(), b.nodeid)))
            if not b.is_renew_secret(rs) or not b.is_cancel_secret(cs):
                bad.append(("lease:%s-secret-lost" % name, "the original secrets are not recognised after the round trip"))
            other = bytes(x ^ 1 for x in rs)
            if b.is_renew_secret(other) or b.is_cancel_secret(bytes(x ^ 1 for x in cs)):
                bad.append(("lease:%s-wrong-secret-accepted" % name, "a different secret is recognised"))
            if rs in data or cs in data:
                bad.append(("lease:%s-cleartext-secret" % name, "the cleartext secret appears in the v2 record"))
            if ser.serialize(b) != data:
                bad.append(("lease:%s-reserialize" % name, "serialize(unserialize(x)) != x (secrets hashed twice?)"))
    except Exception as e:  # noqa
        bad.append(("lease:raised:" + type(e).__name__, repr(e)))
    return bad


def replay_lease(case):
    if case["sec"] == "lease":
        lease = LeaseInfo(owner_num=case["owner"], renew_secret=case["rs"], cancel_secret=case["cs"], expiration_time=case["exp"], nodeid=case["nid"])
        return lease_check_one(lease)
    res = common.Result()
    job_lease({}, res)
    return [(v["sig"], v["msg"]) for v in res.violations if v["case"].get("sec") == case["sec"]]


# ------------------------------------------------------------------ container headers
def job_headers(job, res):
    from allmydata.storage.immutable import ShareFile
    from allmydata.storage.mutable import MutableShareFile
    from allmydata.storage.common import UnknownImmutableContainerVersionError, UnknownMutableContainerVersionError
    tmp = "/dev/shm/vt-c38-%d" % os.getpid()
    shutil.rmtree(tmp, ignore_errors=True)
    os.makedirs(tmp)
    n = [0]

    def path():
        n[0] += 1
        return os.path.join(tmp, "f%d" % n[0])
    try:
        # ---- immutable
        versions = sorted(s.version for s in immutable_schema.ALL_SCHEMAS)
        for ver in versions:
            schema = immutable_schema.schema_from_version(ver)
            for max_size in (0, 1, 10, 2 ** 32 - 2, 2 ** 32 - 1, 2 ** 32, 2 ** 40):
                res.count("evaluations")
                res.count("nontrivial")
                case = {"sec": "hdr", "kind": "immutable", "ver": ver, "max_size": max_size}
                h = schema.header(max_size)
                want = (ver, min(max_size, 2 ** 32 - 1), 0)
                if len(h) != 12 or struct.unpack(">LLL", h) != want:
                    res.violation("header:immutable-fields", case, "header(%d) of v%d = %r, expected fields %r" % (max_size, ver, h, want))
                if not ShareFile.is_valid_header(h) or immutable_schema.schema_from_version(struct.unpack(">L", h[:4])[0]) is not schema:
                    res.violation("header:immutable-not-recognised", case, "header of v%d is not recognised as v%d" % (ver, ver))
                if max_size <= 10:
                    p = path()
                    sf = ShareFile(p, max_size=max_size, create=True, schema=schema)
                    data = bytes(range(max_size))
                    if data:
                        sf.write_share_data(0, data)
                    back = ShareFile(p)
                    if back._schema is not schema or back._num_leases != 0 or back.get_length() != max_size or back.read_share_data(0, 100) != data:
                        res.violation("header:immutable-file-roundtrip", case, "re-opened container: version %r leases %r length %r data %r"
                                      % (back._schema.version, back._num_leases, back.get_length(), back.read_share_data(0, 100)))
        good = immutable_schema.schema_from_version(versions[0]).header(5) + b"12345"
        for pos in range(4):
            for byte in (0x00, 0x01, 0x02, 0x03, 0x80, 0xff):
                m = good[:pos] + bytes([byte]) + good[pos + 1:]
                res.count("evaluations")
                res.count("nontrivial")
                (ver,) = struct.unpack(">L", m[:4])
                p = path()
                with open(p, "wb") as f:
                    f.write(m)
                case = {"sec": "hdr", "kind": "immutable-mut", "m": m}
                try:
                    sf = ShareFile(p)
                    out = "accepted:v%d" % sf._schema.version
                    accepted_ver = sf._schema.version
                except UnknownImmutableContainerVersionError:
                    out, accepted_ver = "rejected", None
                except Exception as e:  # noqa
                    out, accepted_ver = "rejected:" + type(e).__name__, None
                res.count("header:immutable-mut:" + out.split(":")[0])
                res.distinct.add(("hdr-imm", out))
                if accepted_ver is not None and accepted_ver != ver:
                    res.violation("header:immutable-version-misread", case, "version field %d was accepted as version %d" % (ver, accepted_ver))
                if (accepted_ver is not None) != ShareFile.is_valid_header(m) or (accepted_ver is not None) != (ver in versions):
                    res.violation("header:immutable-unknown-version-accepted", case, "version field %d: ShareFile() %s, is_valid_header=%r, known versions %r"
                                  % (ver, out, ShareFile.is_valid_header(m), versions))
        for short in (good[:11], good[:4], b""):
            res.count("evaluations")
            p = path()
            with open(p, "wb") as f:
                f.write(short)
            try:
                ShareFile(p)
                res.violation("header:immutable-short-accepted", {"sec": "hdr", "kind": "immutable-short", "m": short}, "a %d-byte file was accepted as an immutable container" % len(short))
            except Exception as e:  # noqa
                res.count("header:immutable-short-rejected:" + type(e).__name__)
        # ---- mutable
        mversions = sorted(s.version for s in mutable_schema.ALL_SCHEMAS)
        for schema in sorted(mutable_schema.ALL_SCHEMAS, key=lambda s: s.version):
            for nid in NODEIDS:
                for we in SECRETS:
                    res.count("evaluations")
                    res.count("nontrivial")
                    case = {"sec": "hdr", "kind": "mutable", "ver": schema.version, "nid": nid, "we": we}
                    h = schema.header(nid, we)
                    fixed = struct.unpack(">32s20s32sQQ", h[:100])
                    want_magic = b"Tahoe mutable container v%d\n" % schema.version
                    if (len(h) != 100 + 4 * 92 + 4 or not fixed[0].startswith(want_magic) or fixed[1:] != (nid, we, 0, 468)
                            or h[100:] != b"\x00" * (4 * 92 + 4)):
                        res.violation("header:mutable-fields", case, "header fields %r" % (fixed,))
                    if mutable_schema.schema_from_header(h) is not schema or not MutableShareFile.is_valid_header(h):
                        res.violation("header:mutable-not-recognised", case, "v%d header not recognised" % schema.version)
                    p = path()
                    msf = MutableShareFile(p, schema=schema)
                    msf.create(nid, we)
                    back = MutableShareFile(p)
                    with open(p, "rb") as f:
                        got = (back._schema.version, back._read_write_enabler_and_nodeid(f), back._read_data_length(f), back._read_extra_lease_offset(f), back._read_num_extra_leases(f))
                    leases = list(back.get_leases())
                    want = (schema.version, (we, nid), 0, 468, 0)
                    if got != want or leases or back.get_length() != 0:
                        res.violation("header:mutable-file-roundtrip", case, "re-opened container reads %r leases=%r, expected %r" % (got, leases, want))
        # ---- the same for immutable containers (v1 record documented as >L32s32sL after the share data)
        for schema in sorted(immutable_schema.ALL_SCHEMAS, key=lambda s: s.version):
            for li, (renew, cancel) in enumerate([(SECRETS[0], SECRETS[1]), (SECRETS[2], SECRETS[0])]):
                res.count("evaluations")
                res.count("nontrivial")
                exp = 1700000100 + li
                case = {"sec": "hdr", "kind": "immutable-lease", "ver": schema.version, "li": li}
                p = path()
                sf = ShareFile(p, max_size=5, create=True, schema=schema)
                sf.write_share_data(0, b"12345")
                sf.add_lease(LeaseInfo(owner_num=1, renew_secret=renew, cancel_secret=cancel, expiration_time=exp, nodeid=NODEIDS[1]))
                back = list(ShareFile(p).get_leases())
                ok = (len(back) == 1 and back[0].is_renew_secret(renew) and back[0].is_cancel_secret(cancel)
                      and not back[0].is_renew_secret(cancel) and back[0].get_expiration_time() == exp)
                if not ok:
                    res.violation("lease:immutable-container-roundtrip", case, "lease written into a v%d immutable container reads back as %r" % (schema.version, back))
                # a RENEWED record must still decode to the lease that was encoded (same secrets, new time)
                try:
                    ShareFile(p).renew_lease(renew, exp + 5000)
                    back = list(ShareFile(p).get_leases())
                    ok = (len(back) == 1 and back[0].is_renew_secret(renew) and back[0].is_cancel_secret(cancel)
                          and not back[0].is_renew_secret(cancel) and back[0].get_expiration_time() == exp + 5000)
                except Exception as e:  # noqa
                    back, ok = repr(e), False
                if not ok:
                    res.violation("lease:immutable-container-renewed-roundtrip", case, "lease renewed inside a v%d immutable container reads back as %r" % (schema.version, back))
                if ok:
                    ShareFile(p).renew_lease(renew, exp, allow_backdate=True)
                if schema.version == 1:
                    record = struct.pack(">L32s32sL", 1, renew, cancel, exp)
                    with open(p, "rb") as f:
                        raw = f.read()
                    if raw[12 + 5:] != record:
                        res.violation("lease:v1-immutable-record-not-as-documented", case, "lease area of a v1 container holds %r, the documented record is %r" % (raw[17:17 + 48], record[:48]))
                    p2 = path()
                    with open(p2, "wb") as f:
                        f.write(raw[:17] + record)
                    try:
                        old = list(ShareFile(p2).get_leases())
                        ok2 = len(old) == 1 and old[0].is_renew_secret(renew) and old[0].is_cancel_secret(cancel) and old[0].get_expiration_time() == exp
                    except Exception as e:  # noqa
                        old, ok2 = repr(e), False
                    if not ok2:
                        res.violation("lease:v1-immutable-record-misread", case, "a v1 immutable container holding the documented cleartext record is read as %r" % (old,))
        # ---- a lease INSIDE a container of each version: written through the container, read back through
        # a fresh object; version 1 additionally against the documented record (cleartext secrets,
        # >LL32s32s20s in the first header slot at offset 100) in both directions
        for schema in sorted(mutable_schema.ALL_SCHEMAS, key=lambda s: s.version):
            for li, (renew, cancel) in enumerate([(SECRETS[0], SECRETS[1]), (SECRETS[2], SECRETS[0])]):
                res.count("evaluations")
                res.count("nontrivial")
                nid, exp = NODEIDS[1], 1700000000 + li
                case = {"sec": "hdr", "kind": "mutable-lease", "ver": schema.version, "li": li}
                p = path()
                msf = MutableShareFile(p, schema=schema)
                msf.create(NODEIDS[0], SECRETS[2])
                msf.add_lease(10 ** 9, LeaseInfo(owner_num=1, renew_secret=renew, cancel_secret=cancel, expiration_time=exp, nodeid=nid))
                back = list(MutableShareFile(p).get_leases())
                ok = (len(back) == 1 and back[0].is_renew_secret(renew) and back[0].is_cancel_secret(cancel)
                      and not back[0].is_renew_secret(cancel) and back[0].get_expiration_time() == exp and back[0].nodeid == nid)
                if not ok:
                    res.violation("lease:mutable-container-roundtrip", case, "lease written into a v%d container reads back as %r" % (schema.version, back))
                try:
                    MutableShareFile(p).renew_lease(renew, exp + 5000)
                    back = list(MutableShareFile(p).get_leases())
                    ok = (len(back) == 1 and back[0].is_renew_secret(renew) and back[0].is_cancel_secret(cancel)
                          and not back[0].is_renew_secret(cancel) and back[0].get_expiration_time() == exp + 5000 and back[0].nodeid == nid)
                except Exception as e:  # noqa
                    back, ok = repr(e), False
                if not ok:
                    res.violation("lease:mutable-container-renewed-roundtrip", case, "lease renewed inside a v%d container reads back as %r" % (schema.version, back))
                if ok:
                    MutableShareFile(p).renew_lease(renew, exp, allow_backdate=True)
                record = struct.pack(">LL32s32s20s", 1, exp, renew, cancel, nid)
                if schema.version == 1:
                    with open(p, "rb") as f:
                        raw = f.read()[100:100 + 92]
                    if raw != record:
                        res.violation("lease:v1-mutable-record-not-as-documented", case, "first lease slot of a v1 container holds %r, the documented record is %r" % (raw[:48], record[:48]))
                    # the other direction: a container as an older server wrote it
                    p2 = path()
                    h1 = schema.header(NODEIDS[0], SECRETS[2])
                    with open(p2, "wb") as f:
                        f.write(h1[:100] + record + h1[192:])
                    try:
                        old = list(MutableShareFile(p2).get_leases())
                        ok2 = len(old) == 1 and old[0].is_renew_secret(renew) and old[0].is_cancel_secret(cancel) and old[0].get_expiration_time() == exp
                    except Exception as e:  # noqa
                        old, ok2 = repr(e), False
                    if not ok2:
                        res.violation("lease:v1-mutable-record-misread", case, "a v1 container holding the documented cleartext record is read as %r" % (old,))
        gschema = sorted(mutable_schema.ALL_SCHEMAS, key=lambda s: s.version)[0]
        good = gschema.header(NODEIDS[2], SECRETS[2])
        magics = {s.version: s.header(NODEIDS[2], SECRETS[2])[:32] for s in mutable_schema.ALL_SCHEMAS}
        cands = []
        for pos in range(32):
            for byte in (0x00, 0x20, ord("1"), ord("2"), ord("3"), 0xff):
                cands.append(good[:pos] + bytes([byte]) + good[pos + 1:])
        cands.append(mutable_schema._magic(3) + good[32:])
        cands.append(mutable_schema._magic(0) + good[32:])
        cands += [good[:31], good[:20], b""]
        for m in cands:
            if m == good:
                continue
            res.count("evaluations")
            res.count("nontrivial")
            p = path()
            with open(p, "wb") as f:
                f.write(m)
            case = {"sec": "hdr", "kind": "mutable-mut", "m": m[:40]}
            try:
                back = MutableShareFile(p)
                acc = back._schema.version
            except UnknownMutableContainerVersionError:
                acc = None
            except Exception as e:  # noqa
                acc = None
                res.count("header:mutable-mut-rejected:" + type(e).__name__)
            res.distinct.add(("hdr-mut", acc))
            res.count("header:mutable-mut:" + ("accepted" if acc else "rejected"))
            if acc is not None and m[:32] != magics[acc]:
                res.violation("header:mutable-magic-misread", case, "magic %r accepted as version %d (its magic is %r)" % (m[:32], acc, magics[acc]))
            if (acc is not None) != MutableShareFile.is_valid_header(m):
                res.violation("header:mutable-valid-header-disagrees", case, "MutableShareFile() and is_valid_header disagree on %r" % (m[:32],))
        res.sample({"codec": "mutable header", "version": gschema.version, "magic": good[:32]})
    finally:
        shutil.rmtree(tmp, ignore_errors=True)


def replay_headers(case):
    res = common.Result()
    job_headers({}, res)
    return [(v["sig"], v["msg"]) for v in res.violations if v["case"].get("kind") == case.get("kind")]


# ------------------------------------------------------------------ dispatch
def _chunk(chunk):
    res = common.Result()
    for job in chunk:
        sec = job["sec"]
        if sec in ("base32", "base62"):
            job_basex(dict(job, codec=sec), res)
        elif sec == "netstring":
            job_netstring(job, res)
        elif sec == "ueb":
            job_ueb(job, res)
        elif sec == "lease":
            job_lease(job, res)
        elif sec == "hdr":
            job_headers(job, res)
        res.count("jobs")
    return res


def replay(case):
    sec = case["sec"]
    if sec in ("base32", "base62"):
        return replay_basex(case)
    if sec == "netstring":
        return replay_netstring(case)
    if sec == "ueb":
        return replay_ueb(case)
    if sec.startswith("lease"):
        return replay_lease(case)
    return replay_headers(case)


def run(tier, seed):
    jobs = []
    for codec in ("base32", "base62"):
        for part in ("roundtrip", "inputs", "mutations"):
            jobs.append({"sec": codec, "part": part})
    nv = len(ns_values())
    for lo in range(0, nv, 12):
        jobs.append({"sec": "netstring", "range": [lo, lo + 12]})
    nu = len(ueb_values())
    for lo in range(0, nu, 2):
        jobs.append({"sec": "ueb", "range": [lo, lo + 2]})
    jobs.append({"sec": "lease"})
    jobs.append({"sec": "hdr"})
    for j in jobs:
        j["tier"] = tier
    res = common.pmap(_chunk, jobs, chunks=len(jobs))
    outcomes = sorted(set(repr(x) for x in res.distinct))
    cov = {
        "evaluations": res.counts.get("evaluations", 0),
        "distinct_nontrivial": res.counts.get("nontrivial", 0),
        "exhaustive": True,
        "distinct_outcome_classes": len(outcomes),
        "outcome_classes": outcomes,
        "rule": ("base32/base62: every byte string of length 0..2 + patterned to 40 (round trip); every string over %d/%d symbols up to length 5/3 (thorough 6/4) as raw decoder input; every single-character insert/delete/replace (small alphabet; all 256 bytes in the last position) of the encodings of 325 values. "
                 "netstring: %d values (all strings over {a , : 1} up to length 4 + 7 long ones) as 1- and 2-element sequences, strict and lax decoding, every single-character insert/delete/replace with one of %r. "
                 "UEB: %d field sets with edge values; every truncation, trailing junk, duplicate and reordered fields, and every single-character mutation of the short ones and of every 12th long one (thorough: of all). "
                 "leases: owner x expiry x secrets x nodeid edge grid through raw formats and v1/v2 serialisers, out-of-range fields, every wrong record length. "
                 "headers: immutable v1/v2 x 7 max sizes, every (position, byte) mutation of the version field, short files; mutable v1/v2 x nodeid x write enabler, every (position, byte) mutation of the 32-byte magic, unknown versions, short files. "
                 "non-trivial = mutated/malformed input, or round-trip value with non-empty content")
                % (len(B32_ALPHA), len(B62_ALPHA), nv, MUT_CHARS.decode(), nu),
    }
    return res, cov


MANIFEST = {
    "engine": "E",
    "technique": "exhaustive round trip over small value domains plus closed mutation catalogues (single-character insert/delete/replace, truncations, structural edits) against the real codecs, classified by re-encoding",
    "text": "base32, base62, netstrings, the URI-extension block, lease records (raw formats and v1/v2 serialisers) and immutable/mutable container headers (schema functions and real ShareFile/MutableShareFile files) are round-tripped over explicit finite domains; every catalogued malformed input must be rejected, or decode to a value that re-encodes to it, or decode to the value it was derived from. Anything else is reported with a signature naming codec and class.",
    "note": "Lenient acceptance that yields the SAME value (e.g. '03:abc,', a netstring with a wrong terminator, unsorted UEB fields) is counted, not a violation. Field order of a UEB is not treated as part of its value. Only single-character corruptions.",
}
