"""C05  Convergent capabilities and literal files  (Engine E over Engine G at the default schedule).

Every upload runs through the real Uploader / EncryptAnUploadable / Encoder onto real storage
servers (one virtual grid per parameter case, default delivery order).  Enumerated:

 A. parameter grid: EVERY (size, secret, (k,N), max_segment_size) of the alphabets in `grid_cases`
    (sizes around the 55/56 literal threshold and around segment multiples, three secrets, all
    k <= N <= 4, three segment sizes; a few files of 64 KiB .. 200 kB so that the key hasher's
    64 KiB loop and the 50 KiB encryption chunks iterate).  For each: upload from `Data` (the
    baseline), then from EVERY other source kind
        FileHandle over BytesIO, FileName on a file under /dev/shm, a FileHandle whose file object
        returns short reads of c bytes (c in {1,7,4096}), a custom IUploadable returning one piece,
        the same firing its Deferred from a later reactor turn
    x EncryptAnUploadable.CHUNKSIZE in {1, 7, default};
 B. read chunking: for selected cases the custom IUploadable answers read(n) with EVERY composition
    of the returned bytes into <= 3 pieces - once applied to all read() calls of the upload and
    once to each single read() call alone - x CHUNKSIZE in {1, 7, default};
 C. neighbours: EVERY pair of grid cases with the same plaintext that differ in exactly one of
    secret / k / N / effective segment size;
 D. convergence=None: pairs of uploads of the same data.

Oracle.  (same data, secret, params; any source; any chunking) -> byte-identical cap string.
The cap's key equals an independent hashlib-only reference of the convergent key (written from
docs/specifications/file-encoding.rst and the tag names of util/hashutil.py), its storage index
equals the reference SI, size/k/N are recorded.  Neighbours have different storage indexes.
size <= 55 -> `URI:LIT:` + base32(data) with zero remote calls; size >= 56 -> `URI:CHK:`.
convergence=None -> the key is a 16-byte os.urandom draw made during that upload (the scripted
stream), and two uploads of the same data differ in key and storage index.
"""
import base64
import hashlib
import io
import itertools
import os
import sys

from twisted.internet import defer

from .. import boot, common, grid, lib_imm
from allmydata import uri as tahoe_uri
from allmydata.immutable.upload import Data, FileHandle, FileName, EncryptAnUploadable

LEVEL = "exploration"
ASSUMPTIONS = [
    "plaintexts up to 200 000 bytes; secrets {b'', b'a', 32 bytes}; k <= N <= 4; max_segment_size in {21, 56, 131072}: values outside these alphabets are not exercised",
    "uploadables obey the IUploadable contract (short reads only at EOF); compositions into at most 3 pieces",
    "SHA-256d is treated as collision-free (distinct tags/parameters => distinct keys)",
    "default delivery schedule on honest servers (schedules are the subject of C01/C06)",
]

DEFAULT_SEG = 128 * 1024
SECRETS = [b"", b"a", bytes(range(32))]
CHUNKS = [1, 7, None]


# ----------------------------------------------------------------------------- reference
def _netstring(s):
    return b"%d:" % len(s) + s + b","


def ref_key(data, secret, k, n, segsize):
    """SHA-256d over netstring(tag) || plaintext, truncated to 16 bytes; the tag is the
    single-purpose tag, then netstring(secret), then netstring("k,n,segsize")."""
    tag = b"allmydata_immutable_content_to_key_with_added_secret_v1+" + _netstring(secret) + _netstring(b"%d,%d,%d" % (k, n, segsize))
    h = hashlib.sha256(_netstring(tag) + data).digest()
    return hashlib.sha256(h).digest()[:16]


def ref_si(key):
    h = hashlib.sha256(_netstring(b"allmydata_immutable_key_to_storage_index_v1") + key).digest()
    return hashlib.sha256(h).digest()[:16]


def eff_seg(size, k, seg):
    s = min(seg, size)
    return ((s + k - 1) // k) * k


def b32(b):
    return base64.b32encode(b).decode("ascii").lower().rstrip("=").encode("ascii")


def unb32(s):
    s = s.upper()
    s += b"=" * ((8 - len(s) % 8) % 8)
    return base64.b32decode(s)


def parse_cap(cap):
    """independent parse of the cap STRING"""
    parts = cap.split(b":")
    if parts[:2] == [b"URI", b"LIT"] and len(parts) == 3:
        return {"kind": "LIT", "data": unb32(parts[2])}
    if parts[:2] == [b"URI", b"CHK"] and len(parts) == 7:
        return {"kind": "CHK", "key": unb32(parts[2]), "ueb": unb32(parts[3]), "k": int(parts[4]), "n": int(parts[5]), "size": int(parts[6])}
    return {"kind": "?"}


# ----------------------------------------------------------------------------- sources
def pieces_of(chunk, cuts):
    """split chunk at the cut positions that fall strictly inside it (=> a composition of
    len(chunk) into <= len(cuts)+1 positive pieces)"""
    pts = sorted(set(c for c in cuts if 0 < c < len(chunk)))
    out, prev = [], 0
    for p in pts + [len(chunk)]:
        out.append(chunk[prev:p])
        prev = p
    return [x for x in out if x] or [b""]


class SplitUploadable(FileHandle):
    """IUploadable whose read(n) returns the next n bytes (fewer only at EOF) as a LIST of
    pieces: cut positions `cuts` applied to every call (only_call None) or to one call."""

    def __init__(self, data, convergence, cuts=(), only_call=None, lazy=False):
        FileHandle.__init__(self, io.BytesIO(data), convergence)
        self.cuts, self.only_call, self.lazy = tuple(cuts), only_call, lazy
        self.reads = []      # (requested, returned, npieces)

    def read(self, length):
        chunk = self._filehandle.read(length)
        idx = len(self.reads)
        if self.only_call is None or self.only_call == idx:
            pcs = pieces_of(chunk, self.cuts)
        else:
            pcs = [chunk]
        self.reads.append((length, len(chunk), len(pcs)))
        if self.lazy:
            d = defer.Deferred()
            boot.R.callLater(0, d.callback, pcs)
            return d
        return defer.succeed(pcs)


class ShortReadFile(object):
    """file object that never returns more than c bytes per read() (allowed for raw files)"""

    def __init__(self, data, c):
        self.f, self.c = io.BytesIO(data), c

    def read(self, n=-1):
        if n is None or n < 0:
            n = self.c
        return self.f.read(min(n, self.c))

    def seek(self, *a):
        return self.f.seek(*a)

    def tell(self):
        return self.f.tell()

    def close(self):
        pass


class ShortFileUploadable(FileHandle):
    """FileHandle over a short-reading file; read() loops so that the IUploadable contract
    (short only at EOF) holds.  Exercises the convergent-key hashing loop with tiny reads."""

    def __init__(self, data, convergence, c):
        FileHandle.__init__(self, ShortReadFile(data, c), convergence)

    def read(self, length):
        out, got = [], 0
        while got < length:
            b = self._filehandle.read(length - got)
            if not b:
                break
            out.append(b)
            got += len(b)
        return defer.succeed([b"".join(out)])


def make_source(g, data, secret, variant):
    kind = variant["source"]
    if kind == "data":
        return Data(data, convergence=secret)
    if kind == "filehandle":
        return FileHandle(io.BytesIO(data), convergence=secret)
    if kind == "filename":
        p = os.path.join(g.base, "plain-%d.bin" % g.sched.issued)
        with open(p, "wb") as f:
            f.write(data)
        return FileName(p, convergence=secret)
    if kind == "shortfh":
        return ShortFileUploadable(data, secret, variant["c"])
    if kind in ("split", "split-async"):
        return SplitUploadable(data, secret, variant.get("cuts", ()), variant.get("only_call"), lazy=(kind == "split-async"))
    raise ValueError(kind)


def one_upload(g, data, secret, variant):
    """returns dict(cap|err, calls, reads, draws)"""
    old_chunk = EncryptAnUploadable.CHUNKSIZE
    draws, other = [], []
    real_urandom = os.urandom

    def rec(n):
        b = real_urandom(n)
        # only draws made by tahoe code count (eliot draws a uuid4 per logged action)
        if "allmydata" in sys._getframe(1).f_code.co_filename:
            draws.append(b)
        else:
            other.append(b)
        return b
    issued0 = g.sched.issued
    g.sched.steps = 0          # the scheduler's livelock horizon is per grid: restart it per upload
    del g.sched.log[:]
    out = {}
    try:
        if variant.get("chunk"):
            EncryptAnUploadable.CHUNKSIZE = variant["chunk"]
        os.urandom = rec
        src = make_source(g, data, secret, variant)
        saved = dict(g.clients[0].encoding_params)
        if variant.get("override"):
            # the parameters of THIS upload are set on the uploadable (IUploadable's own k/happy/N/segment size
            # override what the client is configured with); the client gets different defaults meanwhile
            src.encoding_param_k, src.encoding_param_n = saved["k"], saved["n"]
            src.encoding_param_happy, src.max_segment_size = saved["happy"], saved["max_segment_size"]
            g.clients[0].encoding_params.update(variant["override"])
        try:
            b = g.wait(g.clients[0].upload(src))
        finally:
            g.clients[0].encoding_params.clear()
            g.clients[0].encoding_params.update(saved)
        g.quiesce()
        if not b:
            out["err"] = "hang"
        elif b[0][0] != "ok":
            out["err"] = lib_imm.failure_name(b[0][1]) + ": " + b[0][1].getErrorMessage()[:200]
        else:
            out["cap"] = b[0][1].get_uri()
        out["reads"] = list(getattr(src, "reads", []))
    finally:
        os.urandom = real_urandom
        EncryptAnUploadable.CHUNKSIZE = old_chunk
    out["calls"] = g.sched.issued - issued0
    out["draws"] = draws
    out["other_draws"] = len(other)
    for e in boot.R.take_errors():
        out.setdefault("err", "exception-in-timer:" + type(e.value).__name__)
    for (why, f) in boot.take_logged():
        out.setdefault("logged", type(f.value).__name__)
    return out


def judge_cap(case, data, out, viol, tag):
    """absolute checks of one upload result against the reference"""
    size, secret, k, n = case["size"], case["secret"], case["k"], case["n"]
    if "cap" not in out:
        viol.append(("upload-failed", "%s: upload failed on honest servers: %s" % (tag, out.get("err"))))
        return None
    cap = out["cap"]
    p = parse_cap(cap)
    u = tahoe_uri.from_string(cap)
    if size <= 55:
        want = b"URI:LIT:" + b32(data)
        if p["kind"] != "LIT":
            viol.append(("small-file-not-literal", "%s: %d bytes gave %r" % (tag, size, cap)))
        elif cap != want or p["data"] != data:
            viol.append(("literal-cap-wrong", "%s: LIT cap %r does not embed the data (want %r)" % (tag, cap, want)))
        if out["calls"]:
            viol.append(("literal-used-servers", "%s: %d remote calls for a %d-byte literal file" % (tag, out["calls"], size)))
        return None
    if p["kind"] != "CHK":
        viol.append(("large-file-not-chk", "%s: %d bytes gave %r" % (tag, size, cap)))
        return None
    if (p["size"], p["k"], p["n"]) != (size, k, n):
        viol.append(("cap-parameters", "%s: cap records size/k/N=%r, uploaded %r" % (tag, (p["size"], p["k"], p["n"]), (size, k, n))))
    si = u.get_storage_index()
    if si != ref_si(p["key"]):
        viol.append(("storage-index-not-hash-of-key", "%s: get_storage_index()=%s, reference SI of the cap's key=%s" % (tag, si.hex(), ref_si(p["key"]).hex())))
    if secret is not None:
        want = ref_key(data, secret, k, n, eff_seg(size, k, case["seg"]))
        if p["key"] != want:
            viol.append(("convergent-key-differs-from-reference", "%s: key=%s reference=%s (segsize used in reference: %d)" % (tag, p["key"].hex(), want.hex(), eff_seg(size, k, case["seg"]))))
    return si


# ----------------------------------------------------------------------------- part A/B
def std_variants():
    out = []
    for chunk in CHUNKS:
        for src in ("data", "filehandle", "filename", "split", "split-async"):
            if src == "data" and chunk is None:
                continue   # the baseline itself
            out.append({"source": src, "chunk": chunk})
        for c in (1, 7, 4096):
            out.append({"source": "shortfh", "c": c, "chunk": chunk})
    # the same parameters given per upload (on the uploadable) while the client is configured otherwise
    for src in ("data", "filehandle"):
        out.append({"source": src, "chunk": None, "override": {"max_segment_size": 33}})
        out.append({"source": src, "chunk": None, "override": {"max_segment_size": 1024 * 1024}})
        out.append({"source": src, "chunk": None, "override": {"k": 1, "n": 1, "max_segment_size": 49}})
    return out


def compositions(m):
    """cut tuples giving every composition of m into <= 3 positive pieces, each once"""
    yield ()
    for a in range(1, m):
        yield (a,)
    for a in range(1, m):
        for b in range(a + 1, m):
            yield (a, b)


def run_case(case, seed, mode):
    """mode 'std': all source kinds x chunk sizes.  mode 'comp': every composition.
    returns (viol [(sig, replaycase, msg)], info)"""
    data = lib_imm.payload(case["size"], seed, b"c05")
    viol, info = [], {"uploads": 0, "variants": 0, "caps": set(), "npieces": set()}
    S = case.get("S", case["n"])
    g = grid.Grid(S, client_kw=dict(k=case["k"], n=case["n"], happy=1, max_segment_size=case["seg"]))
    try:
        def up(variant):
            out = one_upload(g, data, case["secret"], variant)
            info["uploads"] += 1
            return out
        base = up({"source": "data", "chunk": None})
        v0 = []
        si = judge_cap(case, data, base, v0, "baseline Data()")
        for sig, msg in v0:
            viol.append((sig, {"case": case, "variant": {"source": "data", "chunk": None}}, msg))
        info["si"] = si
        info["cap"] = base.get("cap")
        if "cap" not in base:
            return viol, info
        info["caps"].add(base["cap"])

        def compare(variant):
            out = up(variant)
            info["variants"] += 1
            vv = []
            judge_cap(case, data, out, vv, "variant %r" % (variant,))
            if "cap" in out and out["cap"] != base["cap"]:
                vv.append(("cap-depends-on-source-or-chunking", "same data/secret/params: Data() gave %r, %r gave %r" % (base["cap"], variant, out["cap"])))
            if "cap" in out:
                info["caps"].add(out["cap"])
            for r in out.get("reads", ()):
                info["npieces"].add(r[2])
                if r[1] > r[0]:
                    raise grid.HarnessError("uploadable returned a long read %r" % (r,))
            for sig, msg in vv:
                viol.append((sig, {"case": case, "variant": variant}, msg + " | case=%r" % (case,)))
            return out
        if mode == "std":
            for variant in std_variants():
                compare(variant)
        elif mode == "comp":
            sl, nsl = case.get("slice", (0, 1))
            ctr = [0]

            def mine():
                ctr[0] += 1
                return ctr[0] % nsl == sl
            for chunk in case.get("chunks", CHUNKS):
                probe = compare({"source": "split", "chunk": chunk})
                if sl:
                    info["variants"] -= 1      # the single-piece probe is counted by slice 0 only
                reads = probe.get("reads", [])
                lens = [r[1] for r in reads]
                mx = max(lens) if lens else 0
                info.setdefault("read_calls", {})[str(chunk)] = len(reads)
                for cuts in compositions(mx):
                    if cuts and mine():
                        compare({"source": "split", "chunk": chunk, "cuts": list(cuts)})
                # each read() call alone (skipped when there is one call only, or all pieces are 1 byte)
                if len(reads) > 1 and mx > 1:
                    for ci, ln in enumerate(lens):
                        for cuts in compositions(ln):
                            if cuts and mine():
                                compare({"source": "split", "chunk": chunk, "cuts": list(cuts), "only_call": ci})
    finally:
        g.close()
    return viol, info


def _chunk(cases, seed, mode):
    res = common.Result()
    for case in cases:
        viol, info = run_case(case, seed, mode)
        res.count("uploads", info["uploads"])
        res.count("evaluations", info["variants"])
        res.count("cases:" + mode)
        if info["variants"] >= 2:
            res.count("nontrivial")
        if len(info["caps"]) > 1:
            res.count("cases_with_diverging_caps")
        for sig, rc, msg in viol:
            res.violation(sig, dict(rc, mode=mode), msg)
        if mode == "std":
            res.notes.setdefault("table", []).append((case["size"], case["secret"], case["k"], case["n"], case["seg"], info.get("si"), info.get("cap")))
        else:
            res.notes.setdefault("pieces", set()).update(info["npieces"])
            if case.get("slice", (0, 1))[0] == 0:
                res.sample({"case": case, "read_calls_per_chunksize": info.get("read_calls"), "variants_in_this_slice": info["variants"]})
        if mode == "std" and case["size"] in (56,) and case["k"] == 2 and case["n"] == 3 and case["secret"] == b"a":
            res.sample({"case": case, "cap": (info.get("cap") or b"").decode("ascii"), "variants_compared": info["variants"]})
    return res


def grid_cases(tier):
    sizes = [0, 1, 54, 55, 56, 57, 64, 100, 111]
    if tier != "quick":
        sizes += [41, 43, 62, 63, 112, 113, 168, 169]
    kn = [(k, n) for n in range(1, 5) for k in range(1, n + 1)]
    out = []
    for size in sizes:
        for secret in SECRETS:
            for (k, n) in kn:
                for seg in (21, 56, DEFAULT_SEG):
                    if size <= 55 and (seg != 21 or (k, n) not in ((1, 1), (2, 3), (4, 4))):
                        continue   # literal files: parameters are irrelevant, keep three of them
                    if tier == "quick" and size in (62, 64, 111, 113) and (k, n) not in ((1, 1), (1, 2), (2, 3), (3, 3), (3, 4), (4, 4)):
                        continue
                    out.append({"size": size, "secret": secret, "k": k, "n": n, "seg": seg})
    big = [65535, 65536, 65537, 131073] if tier == "quick" else [51199, 51200, 51201, 65535, 65536, 65537, 131071, 131072, 131073, 200000]
    for size in big:
        for (k, n, seg) in ((1, 1, DEFAULT_SEG), (3, 4, DEFAULT_SEG), (2, 3, 4096)):
            if tier == "quick" and (k, n) == (2, 3) and size != 65537:
                continue
            out.append({"size": size, "secret": b"a", "k": k, "n": n, "seg": seg, "S": 1})
    return out


def comp_cases(tier):
    out = [
        {"size": 55, "secret": b"a", "k": 1, "n": 1, "seg": DEFAULT_SEG, "chunks": [None]},        # literal: read_this_many_bytes
        {"size": 57, "secret": b"a", "k": 1, "n": 1, "seg": DEFAULT_SEG, "chunks": [None, 7]},     # one read of 57 / nine of <= 7
        {"size": 64, "secret": b"", "k": 2, "n": 3, "seg": 21},                                    # 3 segments, block reads of 11
        {"size": 61, "secret": b"a", "k": 3, "n": 4, "seg": 56, "chunks": [None, 7]},              # reads of 19/19/18+pad
    ]
    if tier != "quick":
        out += [
            {"size": 100, "secret": b"a", "k": 1, "n": 2, "seg": DEFAULT_SEG, "chunks": [None, 7]},
            {"size": 113, "secret": bytes(range(32)), "k": 2, "n": 2, "seg": 56},
            {"size": 56, "secret": b"", "k": 4, "n": 4, "seg": 21},
            {"size": 30, "secret": b"a", "k": 1, "n": 1, "seg": DEFAULT_SEG, "chunks": [None]},
        ]
    return out


# ----------------------------------------------------------------------------- part C
def neighbours(table):
    """pairs of rows with the same plaintext differing in exactly one of secret/k/N/effective segsize"""
    rows = [r for r in table if r[0] > 55 and r[5] is not None]
    by_size = {}
    for r in rows:
        by_size.setdefault(r[0], []).append(r)
    for size, rs in sorted(by_size.items()):
        rs.sort(key=lambda r: (r[1], r[2], r[3], r[4]))
        for a, b in itertools.combinations(rs, 2):
            ea, eb = eff_seg(size, a[2], a[4]), eff_seg(size, b[2], b[4])
            diff = [a[1] != b[1], a[2] != b[2], a[3] != b[3], a[4] != b[4]]
            yield a, b, diff, ea, eb


def check_neighbours(res, table):
    names = ["secret", "k", "N", "segment size"]
    for a, b, diff, ea, eb in neighbours(table):
        if sum(diff) != 1:
            continue
        which = names[diff.index(True)]
        if which == "segment size" and ea == eb:
            # both max_segment_size values give the same segment size for this file: same encoding
            res.count("neighbours:same-effective-segsize")
            if a[6] != b[6]:
                res.count("neighbours:same-effective-segsize-but-different-cap")
            continue
        res.count("evaluations")
        res.count("neighbours:" + which)
        if a[5] == b[5]:
            ca = {"size": a[0], "secret": a[1], "k": a[2], "n": a[3], "seg": a[4]}
            cb = {"size": b[0], "secret": b[1], "k": b[2], "n": b[3], "seg": b[4]}
            res.violation("storage-index-ignores-" + which.replace(" ", "-"), {"mode": "pair", "a": ca, "b": cb},
                          "same %d-byte plaintext, only the %s differs (%r vs %r) but both uploads have storage index %s" % (a[0], which, ca, cb, a[5].hex()))


# ----------------------------------------------------------------------------- part D
def random_key_cases(tier):
    out = []
    for size in (0, 55, 56, 57, 100):
        for (k, n) in ((1, 1), (2, 3)) if tier == "quick" else ((1, 1), (2, 3), (3, 4), (4, 4)):
            for src in ("data", "filehandle", "filename", "split"):
                out.append({"size": size, "secret": None, "k": k, "n": n, "seg": 56, "source": src})
    return out


def run_random(case, seed):
    data = lib_imm.payload(case["size"], seed, b"c05")
    viol = []
    g = grid.Grid(case["n"], client_kw=dict(k=case["k"], n=case["n"], happy=1, max_segment_size=case["seg"]))
    try:
        boot.urandom.reset(seed, b"c05-random-key")
        mirror = boot._URandom()
        mirror.reset(seed, b"c05-random-key")
        outs = []
        for i in range(2):
            out = one_upload(g, data, None, {"source": case["source"], "chunk": None})
            judge_cap(case, data, out, viol, "upload %d (convergence=None)" % i)
            outs.append(out)
        if case["size"] > 55 and all("cap" in o for o in outs):
            keys = [parse_cap(o["cap"])["key"] for o in outs]
            # the scripted stream: every draw of this execution, in order, is a slice of it
            total = sum(16 * (len(o["draws"]) + o["other_draws"]) for o in outs)
            script = mirror(total)
            for o in outs:
                for d in o["draws"]:
                    if len(d) == 16 and d not in [script[i:i + 16] for i in range(0, total, 16)]:
                        raise grid.HarnessError("urandom draw is not part of the scripted stream")
            for i, o in enumerate(outs):
                d16 = [d for d in o["draws"] if len(d) == 16]
                if keys[i] not in d16:
                    viol.append(("random-key-not-from-urandom", "upload %d: key %s is not one of the 16-byte os.urandom draws made during this upload %r" % (i, keys[i].hex(), [d.hex() for d in o["draws"]])))
                elif o["draws"] and o["draws"][0] != keys[i]:
                    viol.append(("random-key-not-next-urandom-bytes", "upload %d: key %s is not the NEXT 16 bytes tahoe code drew from the scripted stream (%s)" % (i, keys[i].hex(), o["draws"][0].hex())))
            if keys[0] == keys[1]:
                viol.append(("random-key-reused", "two uploads with convergence=None got the same key %s" % keys[0].hex()))
            sis = [tahoe_uri.from_string(o["cap"]).get_storage_index() for o in outs]
            if sis[0] == sis[1]:
                viol.append(("random-key-same-storage-index", "two uploads with convergence=None share storage index %s" % sis[0].hex()))
    finally:
        g.close()
    return viol


def _chunk_random(cases, seed):
    res = common.Result()
    for case in cases:
        res.count("evaluations")
        res.count("random_key_pairs")
        for sig, msg in run_random(case, seed):
            res.violation(sig, {"mode": "random", "case": case}, msg + " | case=%r" % (case,))
    return res


def _pair(case, seed):
    out = []
    rows = []
    for c in (case["a"], case["b"]):
        v, info = run_case(dict(c), seed, "none")
        rows.append((c["size"], c["secret"], c["k"], c["n"], c["seg"], info.get("si"), info.get("cap")))
    r = common.Result()
    check_neighbours(r, rows)
    return [(v["sig"], v["msg"]) for v in r.violations]


def replay(case):
    seed = boot.SEED
    mode = case.get("mode")
    if mode == "pair":
        return _pair(case, seed)
    if mode == "random":
        return run_random(case["case"], seed)
    # one variant against the baseline
    c = dict(case["case"])
    data = lib_imm.payload(c["size"], seed, b"c05")
    g = grid.Grid(c.get("S", c["n"]), client_kw=dict(k=c["k"], n=c["n"], happy=1, max_segment_size=c["seg"]))
    viol = []
    try:
        base = one_upload(g, data, c["secret"], {"source": "data", "chunk": None})
        judge_cap(c, data, base, viol, "baseline Data()")
        var = case["variant"]
        if var != {"source": "data", "chunk": None}:
            out = one_upload(g, data, c["secret"], var)
            judge_cap(c, data, out, viol, "variant %r" % (var,))
            if "cap" in out and "cap" in base and out["cap"] != base["cap"]:
                viol.append(("cap-depends-on-source-or-chunking", "Data() gave %r, %r gave %r" % (base["cap"], var, out["cap"])))
    finally:
        g.close()
    return viol


def run(tier, seed):
    A = grid_cases(tier)
    res = common.pmap(_chunk, A, (seed, "std"), chunks=min(len(A), 192))
    table = res.notes.pop("table", [])
    check_neighbours(res, table)
    B = comp_cases(tier)
    # split the composition cases per chunk size so that the work spreads over the workers
    Bs = []
    NSL = 8
    for c in B:
        for ch in c.get("chunks", CHUNKS):
            for sl in range(NSL):
                Bs.append(dict(c, chunks=[ch], slice=(sl, NSL)))
    rb = common.pmap(_chunk, Bs, (seed, "comp"), chunks=len(Bs))
    pieces = rb.notes.pop("pieces", set())
    res.merge(rb)
    D = random_key_cases(tier)
    res.merge(common.pmap(_chunk_random, D, (seed,)))
    distinct_caps = len(set(r[6] for r in table if r[6]))
    cov = {
        "evaluations": res.counts.get("evaluations", 0),
        "distinct_nontrivial": distinct_caps + rb.counts.get("evaluations", 0),
        "exhaustive": True,
        "rule": "evaluations = cap comparisons (variant upload vs Data() baseline, neighbour pairs, random-key pairs); "
                "non-trivial = distinct caps produced by the %d parameter cases (each compared under %d source x chunk-size variants) plus the %d composition variants "
                "(every composition into <= 3 pieces of every read() of %d cases, applied to all calls and to each call alone)"
                % (len(A), len(std_variants()), rb.counts.get("evaluations", 0), len(Bs) // NSL),
        "real_uploads": res.counts.get("uploads", 0),
        "parameter_cases": len(A),
        "distinct_caps_in_grid": distinct_caps,
        "composition_variants": rb.counts.get("evaluations", 0),
        "pieces_per_read_seen": sorted(pieces),
        "neighbour_pairs": {k[11:]: v for k, v in res.counts.items() if k.startswith("neighbours:")},
        "random_key_pairs": res.counts.get("random_key_pairs", 0),
        "cases_with_diverging_caps": res.counts.get("cases_with_diverging_caps", 0),
    }
    return res, cov


MANIFEST = {
    "engine": "E",
    "technique": "exhaustive enumeration of upload sources, read chunkings and parameter neighbours on the real uploader over a virtual grid (default schedule), judged against a hashlib-only reference of the convergent key",
    "text": "Every (size, secret, k, N, segment size) of a boundary-focused grid is uploaded from Data and then from every other source kind (FileHandle, FileName, short-reading file objects, a custom IUploadable answering now or from a later reactor turn) under EncryptAnUploadable.CHUNKSIZE 1/7/default; and with the parameters given on the uploadable itself while the client is configured with others; for selected files the custom uploadable answers read(n) with every composition into <= 3 pieces, applied to all calls and to each call alone. Caps must be byte-identical, the key and storage index must equal an independent hashlib reference, every pair of cases differing in exactly one of secret/k/N/segment size must have different storage indexes, <= 55 bytes must give a LIT cap embedding the data with zero remote calls, and random-key uploads must use a fresh 16-byte os.urandom draw. Every case is repeated with k/happy/N/segment size set on the uploadable itself while the client is configured otherwise.",
    "note": "Alphabets in ASSUMPTIONS; all os.urandom output is the scripted stream of vt.boot; uploads run at the default delivery order on honest servers.",
}
