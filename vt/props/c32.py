"""C32  Servers are ordered consistently and upload permission is enforced  (Engine E, exhaustive).

Real code: allmydata.storage_client.StorageFarmBroker.get_servers_for_psi fed with REAL server
objects built from announcements by StorageFarmBroker.test_add_rref/_make_storage_server
(4 NativeStorageServer + 1 HTTPNativeStorageServer; permutation seeds come from
_parse_announcement: explicit permutation-seed-base32, the v0- public key, or SHA-256 of an
old-style id), with real grid-manager verifiers built from certificates in the announcement.

Space (all of it, nothing sampled):
  universe          5 servers (thorough: + a 6th whose permutation seed EQUALS server 0's)
  insertion order   quick: 4 orders of the universe; thorough: all 120 (5!) orders - every order
                    is a separate "client" (fresh broker + fresh server objects, so the
                    id()-hashed frozensets inside the broker iterate differently)
  certificates      every subset P of the universe holds a valid certificate (even index:
                    long-lived, odd index: expiring at T); the others hold none / an expired one /
                    one for another server / one signed by an unconfigured manager
  preferred         every subset of the universe (also servers that are not connected)
  connected         every subset of the universe (toggled through the servers' real
                    connect/disconnect callbacks)
  storage index     4 values
  call              for_upload=False; for_upload=True at T-1s and at T+1s with a grid-manager key
                    configured; for_upload=True with NO key configured
plus: every preferred subset written into tahoe.cfg ([client] peers.preferred) and parsed by
StorageClientConfig.from_node_config, all servers connected, 4 storage indexes.

Oracle: the returned ids == connected (and, for uploads with a key configured, currently
certified) servers, sorted by (not preferred, SHA-1(storage_index + seed)) with SHA-1 and the
seed rule recomputed here; equal keys (6th server) may come in either order.  Every client
(insertion order) is compared with the same reference, hence with each other.

Grid half (Engine G, default schedule): 3-5 real storage servers of which 1-2 are not permitted;
an immutable upload and an SDMF / MDMF create + overwrite must never send allocate_buckets / a
test-and-set write / write / close to an unpermitted server.  Second history: a 1-of-4 mutable file is
created on 2-5 servers that are all permitted; then server b loses its certificate and server d leaves
(every ordered pair b != d); the overwrite must not place any share number newly on b.
"""
import contextlib
import hashlib
import io
import gc
import itertools
from datetime import datetime, timedelta, timezone

import allmydata.grid_manager as gm
from allmydata.util import base32
from allmydata.storage_client import StorageFarmBroker, StorageClientConfig
from allmydata.node import config_from_string
from allmydata.client import _valid_config
from .. import common
from ..lib_gridkeys import key, ann_cert, cache_plugin_scan

LEVEL = "exploration"
ASSUMPTIONS = [
    "universe of 5 (thorough 6) servers, 4 storage indexes; get_servers_for_psi has no size-dependent branch",
    "set iteration inside the broker is over id()-hashed server objects; it is varied by building an independent broker and fresh objects per insertion order (PYTHONHASHSEED has no influence on it)",
    "the upload paths (immutable/upload.py, mutable/publish.py) are exercised on the virtual grid with vt.grid.VBroker (a permuting broker with the real one's for_upload semantics), at the default schedule only",
    "storage_client.py builds its verifier without now_fn; the virtual clock is installed below allmydata.grid_manager.current_datetime_with_zone (the module's `datetime` name is a subclass whose now(tz) answers from the virtual clock, naive local time when tz is None); one insertion order is evaluated again with the process in two other time zones; twisted's plugin scan is done once and cached",
    "servers whose permutation seeds are equal may be returned in either relative order (statement silent)",
]

EPOCH = datetime(1970, 1, 1, tzinfo=timezone.utc)
T0 = datetime(2031, 3, 5, 12, 0, 0, tzinfo=timezone.utc)
NOW = [T0]


def _now():
    return NOW[0]


def install_clock():
    """The virtual clock is installed BELOW allmydata.grid_manager.current_datetime_with_zone: the module's `datetime`
    name is bound to a subclass whose now(tz) answers from NOW[0] the way the real one does (tz=None: naive LOCAL
    time of the process, honouring TZ).  The function that reads the clock stays the code under test."""
    from datetime import datetime as _dt

    class VDatetime(_dt):
        @classmethod
        def now(cls, tz=None):
            return cls.fromtimestamp((NOW[0] - EPOCH).total_seconds(), tz)

        @classmethod
        def utcnow(cls):
            return cls.utcfromtimestamp((NOW[0] - EPOCH).total_seconds())
    gm.datetime = VDatetime


class FakeRref(object):
    """What NativeStorageServer._got_versioned_service needs from a RemoteReference."""
    version = {}

    def notifyOnDisconnect(self, cb):
        pass

    def getDataLastReceivedAt(self):
        return None


_CFG = {}


def node_config(extra=""):
    if extra not in _CFG:
        _CFG[extra] = config_from_string("/dev/shm/vt-c32-nonexistent", "client.port", "[client]\n" + extra,
                                         _valid_config=_valid_config())
    return _CFG[extra]


class Universe(object):
    def __init__(self, seed, n):
        self.seed, self.n = seed, n
        self.T = T0 + timedelta(hours=seed % 1000)
        self.gm1, self.gm3 = key(seed, "gm1"), key(seed, "gm3")
        furl = "pb://%s@nowhere/fake" % base32.b2a(hashlib.sha256(b"tub%d" % seed).digest()[:20]).decode("ascii")
        self.ids, self.seeds, self.anns, self.kinds = [], [], [], []
        for i in range(n):
            ann = {"anonymous-storage-FURL": furl, "nickname": "srv%d" % i}
            k = key(seed, "srv%d" % i)
            explicit = hashlib.sha256(b"pseed:%d:%d" % (seed, i)).digest()[:20]
            if i == 0:
                sid, ps = k.v0, explicit
                ann["permutation-seed-base32"] = base32.b2a(ps).decode("ascii")
            elif i in (1, 3):
                sid, ps = k.v0, k.raw_pub                      # seed = the public key itself
            elif i == 2:
                sid, ps = k.v0, explicit
                ann["permutation-seed-base32"] = base32.b2a(ps).decode("ascii")
                ann["anonymous-storage-NURLs"] = ["pb://%s@127.0.0.1:1/x#v=1" % ("a" * 43)]
            elif i == 4:
                sid = base32.b2a(hashlib.sha256(b"oldtub:%d" % seed).digest()[:20])   # old-style id (a tubid)
                ps = hashlib.sha256(sid).digest()
            else:
                sid, ps = k.v0, self.seeds[0]                   # duplicate seed => tie with server 0
                ann["permutation-seed-base32"] = base32.b2a(ps).decode("ascii")
            self.ids.append(sid)
            self.seeds.append(ps)
            self.anns.append(ann)
            self.kinds.append("http" if i == 2 else "native")
        self.sis = [hashlib.sha256(b"si:%d:%d" % (seed, j)).digest()[:16] for j in range(4)]

    def cert_for(self, i, P):
        """announcement certificate list of server i under assignment P (iterable of certified indexes)"""
        pub = b"pub-" + self.ids[i]
        far = (self.T + timedelta(days=365)).isoformat()
        if i in P:
            if i % 2 == 0:
                return [ann_cert(self.gm1, pub, far)]
            return [ann_cert(self.gm1, pub, self.T.isoformat())]
        kind = (i + len(P)) % 4
        if kind == 0:
            return None
        if kind == 1:
            return [ann_cert(self.gm1, pub, (self.T - timedelta(days=1)).isoformat())]
        if kind == 2:
            return [ann_cert(self.gm1, b"pub-" + self.ids[(i + 1) % self.n], far)]
        return [ann_cert(self.gm3, pub, far)]

    def permitted(self, P, t_off):
        return set(i for i in P if i % 2 == 0 or t_off < 0)

    def ref_order(self, eligible, pref, si):
        keyf = lambda i: (i not in pref, hashlib.sha1(si + self.seeds[i]).digest())   # noqa
        return sorted(eligible, key=keyf), keyf


_U = {}


def universe(seed, n):
    if (seed, n) not in _U:
        _U[(seed, n)] = Universe(seed, n)
    return _U[(seed, n)]


def build_broker(U, order, P, pref_ids, with_gm, scc=None):
    cache_plugin_scan()
    install_clock()
    if scc is None:
        scc = StorageClientConfig(preferred_peers=tuple(pref_ids),
                                  grid_manager_keys=[U.gm1.vk] if with_gm else [])
    broker = StorageFarmBroker(True, None, node_config(), scc)
    with contextlib.redirect_stdout(io.StringIO()):
        for i in order:
            ann = dict(U.anns[i])
            c = U.cert_for(i, P)
            if c is not None:
                ann["grid-manager-certificates"] = c
            if U.kinds[i] == "http":
                s = broker._make_storage_server(U.ids[i], {"ann": ann})
                broker.test_add_server(U.ids[i], s)
            else:
                broker.test_add_rref(U.ids[i], FakeRref(), ann)
    want = {"http": "HTTPNativeStorageServer", "native": "NativeStorageServer"}
    for i in order:
        if type(broker.servers[U.ids[i]]).__name__ != want[U.kinds[i]]:
            raise RuntimeError("harness: server %d is a %r" % (i, broker.servers[U.ids[i]]))
    return broker


def set_connected(U, broker, state, C):
    """drive every server to the wanted connection state through its own callbacks"""
    for i in range(U.n):
        want = i in C
        if state.get(i) == want:
            continue
        s = broker.servers[U.ids[i]]
        if U.kinds[i] == "http":
            if want:
                s._got_version({})
            else:
                s._failed_to_connect("vt: unreachable")
        else:
            if want:
                s._got_versioned_service(FakeRref(), None)
            else:
                s._lost()
        state[i] = want


def judge(U, got_ids, eligible, pref, si, what):
    """compare one answer with the reference -> [(sig, msg)]"""
    idx = {sid: i for i, sid in enumerate(U.ids)}
    got = [idx.get(g, g) for g in got_ids]
    want, keyf = U.ref_order(sorted(eligible), pref, si)
    if got == want:
        return []
    if sorted(got, key=repr) == sorted(want, key=repr) and [keyf(i) for i in got] == [keyf(i) for i in want]:
        return []     # only servers with identical (preference, hash) swapped
    gs, ws = set(got), set(want)
    if len(got) != len(gs):
        sig = "server-listed-twice"
    elif gs - ws:
        sig = what["extra_sig"](gs - ws)
    elif ws - gs:
        sig = what["missing_sig"]
    else:
        part_got = [i in pref for i in got]
        if part_got != sorted(part_got, reverse=True):
            sig = "preferred-not-first"
        else:
            sig = "wrong-permuted-order"
    return [(sig, "get_servers_for_psi(si#%d, %s) returned servers %r, reference (connected%s, sorted by (not preferred, SHA1(si+seed))) is %r; preferred=%r"
             % (U.sis.index(si), what["desc"], got, what["filter"], want, sorted(pref)))]


MODES = [
    # (name, for_upload, gm configured, time offset seconds)
    ("read", False, True, -1),
    ("upload@T-1s", True, True, -1),
    ("upload@T+1s", True, True, +1),
]


def eval_call(U, broker, si, for_upload, t_off):
    NOW[0] = U.T + timedelta(seconds=t_off)
    with contextlib.redirect_stdout(io.StringIO()):
        return [s.get_serverid() for s in broker.get_servers_for_psi(si, for_upload=for_upload)]


def check_one(U, broker, P, pref, C, sj, mode, with_gm):
    name, for_upload, _, t_off = mode
    si = U.sis[sj]
    try:
        got = eval_call(U, broker, si, for_upload, t_off)
    except Exception as e:  # noqa
        return [("exception:" + type(e).__name__, "get_servers_for_psi(%s) raised %r" % (name, e))], None
    if for_upload and with_gm:
        elig = set(C) & U.permitted(P, t_off)
        what = {"extra_sig": lambda extra: "unpermitted-server-offered-for-upload" if any(x in C for x in extra) else "disconnected-server-listed",
                "missing_sig": "permitted-server-missing-for-upload",
                "filter": " and certified now", "desc": "for_upload=True, key configured, " + name}
    else:
        elig = set(C)
        what = {"extra_sig": lambda extra: "disconnected-server-listed", "missing_sig": "connected-server-missing",
                "filter": "", "desc": "for_upload=%s, %s" % (for_upload, "key configured" if with_gm else "no key configured")}
    return judge(U, got, elig, pref, si, what), tuple(got)


def subsets(n):
    for r in range(n + 1):
        for c in itertools.combinations(range(n), r):
            yield c


def _tz_chunk(chunk, seed, tz):
    """the same evaluations with the process in another time zone: every client computes the same answer"""
    from .c48 import in_zone
    with in_zone(tz):
        res = _chunk(chunk, seed)
    for v in res.violations:
        v["case"]["tz"] = tz
        v["sig"] = v["sig"] + "@TZ"
    res.counts["tz_evaluations"] = res.counts.get("evaluations", 0)
    return res


def _chunk(chunk, seed):
    res = common.Result()
    for (n, order, P) in chunk:
        U = universe(seed, n)
        allsub = list(subsets(n))
        P = tuple(P)
        for with_gm in (True, False):
            if not with_gm and P != ():
                continue          # without a key the certificates are irrelevant: one assignment is enough
            modes = MODES if with_gm else [("upload-nokey", True, False, -1)]
            for pref in allsub:
                broker = build_broker(U, order, P, [U.ids[i] for i in pref], with_gm)
                res.count("brokers")
                state = {i: True for i in range(n)}
                state[[i for i in range(n) if U.kinds[i] == "http"][0]] = False   # HTTP server starts unconnected
                for C in allsub:
                    set_connected(U, broker, state, C)
                    for sj in range(len(U.sis)):
                        for mode in modes:
                            res.count("evaluations")
                            bad, got = check_one(U, broker, P, set(pref), C, sj, mode, with_gm)
                            if got is not None:
                                res.distinct.add(got)
                                if len(got) >= 2 and tuple(order[:5]) == (0, 1, 2, 3, 4):
                                    res.count("nontrivial")     # distinct inputs: counted for one insertion order only
                            for sig, msg in bad:
                                res.violation(sig, {"seed": seed, "n": n, "order": list(order), "P": list(P), "pref": list(pref),
                                                    "connected": list(C), "si": sj, "mode": list(mode), "gm": with_gm}, msg)
                if order == tuple(range(n)) and P == (0, 1) and pref == (1, 4) and with_gm:
                    set_connected(U, broker, state, range(n))
                    res.sample({"certified": P, "preferred": pref, "connected": "all", "si": 0,
                                "read_order": [U.ids.index(g) for g in eval_call(U, broker, U.sis[0], False, -1)],
                                "upload_order_T-1s": [U.ids.index(g) for g in eval_call(U, broker, U.sis[0], True, -1)],
                                "upload_order_T+1s": [U.ids.index(g) for g in eval_call(U, broker, U.sis[0], True, +1)]})
    return res


def _config_chunk(chunk, seed):
    """[client] peers.preferred from tahoe.cfg -> StorageClientConfig.from_node_config"""
    res = common.Result()
    for (n, pref) in chunk:
        case = {"seed": seed, "n": n, "config_pref": list(pref)}
        for sig, msg in replay(case, res):
            res.violation(sig, case, msg)
    return res


def replay(case, res=None):
    if case.get("tz"):
        from .c48 import in_zone
        with in_zone(case["tz"]):
            return [(sig + "@TZ", msg) for (sig, msg) in replay({k: v for k, v in case.items() if k != "tz"}, res)]
    if "grid" in case:
        from .. import boot as _boot
        S, banned, what = case["grid"]
        r = _grid_chunk([(S, tuple(banned), what)], _boot.SEED)
        return [(v["sig"], v["msg"]) for v in r.violations]
    if "grid_later" in case:
        from .. import boot as _boot
        r = _grid_later_chunk([tuple(case["grid_later"])], _boot.SEED)
        return [(v["sig"], v["msg"]) for v in r.violations]
    U = universe(case["seed"], case["n"])
    n = U.n
    if "config_pref" in case:
        pref = case["config_pref"]
        cfg = node_config("peers.preferred = %s\n" % ", ".join(U.ids[i].decode("ascii") for i in pref))
        scc = StorageClientConfig.from_node_config(cfg)
        broker = build_broker(U, tuple(range(n)), (), [], False, scc=scc)
        state = {i: True for i in range(n)}
        state[2] = False
        set_connected(U, broker, state, range(n))
        out = []
        for sj in range(len(U.sis)):
            try:
                got = eval_call(U, broker, U.sis[sj], False, -1)
            except Exception as e:  # noqa
                out.append(("exception:" + type(e).__name__, "raised %r" % (e,)))
                break
            if res is not None:
                res.count("evaluations")
                res.count("config_evaluations")
                res.distinct.add(tuple(got))
            bad = judge(U, got, set(range(n)), set(pref), U.sis[sj],
                        {"extra_sig": lambda extra: "disconnected-server-listed", "missing_sig": "connected-server-missing", "filter": "",
                         "desc": "tahoe.cfg [client] peers.preferred=%s" % [U.ids[i].decode("ascii")[:11] for i in pref]})
            for sig, msg in bad:
                if not out:
                    out.append(("config:" + sig, msg + "; StorageClientConfig.from_node_config produced preferred_peers=%r" % (scc.preferred_peers,)))
        return out
    with_gm = case["gm"]
    broker = build_broker(U, tuple(case["order"]), tuple(case["P"]), [U.ids[i] for i in case["pref"]], with_gm)
    state = {i: True for i in range(n)}
    state[2] = False
    set_connected(U, broker, state, case["connected"])
    bad, _ = check_one(U, broker, tuple(case["P"]), set(case["pref"]), tuple(case["connected"]), case["si"], tuple(case["mode"]), with_gm)
    return bad


def _grid_chunk(chunk, seed):
    """grid half: with one (or two) servers holding no valid certificate, an immutable upload and a
    mutable create+overwrite must never send allocate_buckets / a write to them"""
    from .. import grid as G, lib_imm, lib_mut, boot
    from allmydata.mutable.publish import MutableData
    res = common.Result()
    for (S, banned, what) in chunk:
        g = G.Grid(S, client_kw=dict(k=2, n=4, happy=1, max_segment_size=64))
        try:
            c = g.clients[0]
            for srv in c.storage_broker.servers:
                if g.ids.index(srv.get_serverid()) in banned:
                    srv.permitted = False
            if what == "immutable":
                b = lib_imm.upload(g, lib_imm.payload(100, seed, b"c32"))
            else:
                b = lib_mut.create(g, what, b"version one")
                if b and b[0][0] == "ok":
                    b = g.wait(b[0][1].overwrite(MutableData(b"version two, longer")))
            g.quiesce()
            res.count("evaluations")
            res.count("grid_operations")
            writes = [lbl for (k_, lbl, o) in g.sched.log if k_ == "deliver" and lbl.split(":")[1] in ("allocate_buckets", "slot_testv_and_readv_and_writev", "write", "close")]
            hit = sorted(set(int(l.split("s")[1].split("#")[0]) for l in writes) & set(banned))
            if hit:
                res.violation("upload-directed-to-unpermitted-server:" + what, {"grid": [S, sorted(banned), what]}, "%s upload on %d servers with %r not permitted sent write traffic to server(s) %r: %r" % (what, S, sorted(banned), hit, [l for l in writes if int(l.split("s")[1].split("#")[0]) in hit][:4]))
            if b and b[0][0] == "ok":
                res.count("grid_ok")
            if not writes:
                res.count("grid_no_writes")
            boot.R.take_errors(); boot.take_logged()
        finally:
            g.close()
    return res


def _grid_later_chunk(chunk, seed):
    """grid half, second history: a mutable file is created while EVERY server is permitted; then server `b`
    loses its certificate and server `d` leaves the grid (its shares become homeless); the file is overwritten.
    No share number may be NEWLY placed on b (its old shares being updated in place is not judged)."""
    from .. import grid as G, lib_mut, boot
    from allmydata.mutable.publish import MutableData
    res = common.Result()
    for (S, b_, d_, what) in chunk:
        g = G.Grid(S, client_kw=dict(k=1, n=4, happy=1, max_segment_size=64))
        try:
            c = g.clients[0]
            r = lib_mut.create(g, what, b"version one")
            g.quiesce()
            if not r or r[0][0] != "ok":
                raise G.HarnessError("create failed: %r" % (r,))
            node = r[0][1]
            si = node.get_storage_index()
            before = set(k_ for k_ in lib_mut.mutable_shares(g, si))
            for srv in list(c.storage_broker.servers):
                i = g.ids.index(srv.get_serverid())
                if i == b_:
                    srv.permitted = False
                if i == d_:
                    c.storage_broker.servers.remove(srv)
            r2 = g.wait(node.overwrite(MutableData(b"version two, longer")))
            g.quiesce()
            after = set(k_ for k_ in lib_mut.mutable_shares(g, si))
            res.count("evaluations")
            res.count("grid_operations")
            res.count("grid_later:" + ("ok" if r2 and r2[0][0] == "ok" else "failed"))
            homeless = sorted(sh for (sv, sh) in before if sv == d_)
            if homeless:
                res.count("grid_later_with_homeless_shares")
            new_on_b = sorted(sh for (sv, sh) in after - before if sv == b_)
            if new_on_b:
                res.violation("share-newly-placed-on-unpermitted-server:" + what, {"grid_later": [S, b_, d_, what]},
                              "%s file on %d servers: after server %d lost its certificate and server %d left (its shares %r became homeless), the overwrite placed share(s) %r on server %d (shares before: %r)"
                              % (what, S, b_, d_, homeless, new_on_b, b_, sorted(before)))
            boot.R.take_errors(); boot.take_logged()
        finally:
            g.close()
    return res


def run(tier, seed):
    gc.collect()
    gc.freeze()     # keep forked workers from copying the whole (read-only) heap on their first collection
    p5 = list(itertools.permutations(range(5)))
    few = [p5[0], p5[-1], p5[33], p5[86]]
    if tier == "thorough":
        # all 120 insertion orders of the 5-server universe; the 6-server universe (tie on the seed) in 4 orders
        plan = [(5, p5), (6, [few[0] + (5,), (5,) + few[1], few[2] + (5,), (5,) + few[3]])]
    else:
        plan = [(5, few)]
    items = []
    for n, orders in plan:
        universe(seed, n)
        items += [(n, o, P) for P in subsets(n) for o in orders]
    res = common.pmap(_chunk, items, (seed,))
    # clients in other time zones (POSIX TZ strings): one insertion order, every certificate subset
    for tz in ("PST8PDT,M3.2.0,M11.1.0", "IST-5:30"):
        res.merge(common.pmap(_tz_chunk, [it for it in items if tuple(it[1]) == tuple(plan[0][1][0])], (seed, tz)))
    res.merge(common.pmap(_config_chunk, [(n, pref) for n, _ in plan for pref in subsets(n)], (seed,), chunks=1))
    gitems = [(S, tuple(b), what) for S in (3, 4, 5) for b in ([0], [1], [S - 1], [0, 1]) for what in ("immutable", "SDMF", "MDMF")]
    res.merge(common.pmap(_grid_chunk, gitems, (seed,)))
    litems = [(S, b_, d_, what) for S in (2, 3, 4, 5) for b_ in range(S) for d_ in range(S) if b_ != d_ for what in ("SDMF", "MDMF")]
    res.merge(common.pmap(_grid_later_chunk, litems, (seed,)))
    n = plan[0][0]
    orders = plan[0][1]
    cov = {
        "grid_operations_with_unpermitted_servers": res.counts.get("grid_operations", 0),
        "evaluations": res.counts.get("evaluations", 0),
        "distinct_nontrivial": res.counts.get("nontrivial", 0),
        "distinct_answers_with_2_or_more_servers": len([d for d in res.distinct if len(d) >= 2]),
        "exhaustive": True,
        "brokers_built": res.counts.get("brokers", 0),
        "insertion_orders": len(orders),
        "distinct_answers": len(res.distinct),
        "config_evaluations": res.counts.get("config_evaluations", 0),
        "plan": ["%d servers x %d insertion orders" % (m, len(o)) for m, o in plan],
        "rule": "universe of %d real server objects; %d insertion orders (independent brokers) x every certificate assignment (2^%d) x every preferred subset (2^%d) x every connected subset (2^%d) x 4 storage indexes x {for_upload=False, for_upload=True at T-1s and T+1s}; "
                "with no key configured: every insertion order x preferred x connected x 4 SI with for_upload=True; plus every preferred subset through tahoe.cfg x 4 SI. "
                "distinct_nontrivial = number of distinct inputs (certificate assignment, preferred, connected, storage index, call mode) whose answer lists >= 2 servers, counted for the canonical insertion order only" % (n, len(orders), n, n, n),
    }
    return res, cov


MANIFEST = {
    "engine": "E",
    "technique": "exhaustive enumeration of insertion orders x certificate assignments x preferred subsets x connected subsets x storage indexes on the real StorageFarmBroker with real server objects",
    "text": "Five real server objects (four NativeStorageServer, one HTTPNativeStorageServer, seeds from all three branches of _parse_announcement, real grid-manager verifiers over certificates carried in the announcements) are added to a fresh StorageFarmBroker in 4 (thorough: all 120) insertion orders; for every certificate assignment, preferred subset, connected subset and 4 storage indexes the answer of get_servers_for_psi (read, upload before/after a certificate expires, upload with no key configured) is compared with connected-and-certified servers sorted by (not preferred, SHA-1(si+seed)) recomputed independently. peers.preferred is also fed through tahoe.cfg and StorageClientConfig.from_node_config. The clock seam is datetime.now inside allmydata.grid_manager (current_datetime_with_zone is code under test); one insertion order is re-evaluated under two other TZ values; the grid half has a second history (certificate lost after creation, another server gone, overwrite).",
    "note": "The grid half (no allocate_buckets / write ever reaches an unpermitted server) is checked on the virtual grid for immutable upload and SDMF/MDMF create+overwrite with 1-2 unpermitted servers out of 3-5 (default schedule). Clock: datetime.now seam inside allmydata.grid_manager (current_datetime_with_zone itself is code under test), also under two other TZ values; twisted plugin scan cached.",
}
