"""C41  Web API never exceeds the authority of the capability used  (Engine H over Engine G).

Scenario tree, built once through the real client API on 3 real storage servers:
    root (rw dir) -> sub (rw dir) -> f.txt (CHK file), m.txt (mutable file)
                  -> rolink  = READ-cap of sub2 (dir) -> g.txt (CHK), mm.txt (mutable, stored with
                               its write-cap inside sub2), d3 (dir, write-cap stored inside sub2)
                  -> a_sub2  = WRITE-cap of the same sub2 (sorts, and is unpacked, before rolink)
                  -> locked  = sub3 (dir) linked with metadata no-write=true, then re-pointed without metadata
    sub additionally holds sc.txt (mutable) and sd (dir), linked through POST ?t=set_children with rw_uri bodies
                  -> imm     = immutable directory -> h.txt (CHK)
                  -> m_ro.txt = READ-cap of the mutable file m (file-overwriting requests through this path only)
Read-only entry points: every directory / mutable file through its read-cap and verify-cap, plus
every path from the root write-cap that passes through `rolink` or `imm`.
For EVERY read-only entry point x EVERY modifying request of the web API's dispatch tables
(PUT file / PUT ?t=mkdir / PUT ?t=uri / POST t=mkdir, mkdir-with-children, mkdir-immutable, upload,
uri, delete, unlink, rename, relink, set_children, check&repair, start-deep-check&repair / DELETE /
PUT and POST on mutable files incl. offset=) the real Root resource is driven over real HTTP
parsing (TahoeLAFSSite), all storage traffic through the scheduler.
Oracle: the request is refused (status >= 400) and the bytes of every mutable share on the grid
(directories and mutable files) are unchanged; every response obtained through a read-only entry
point (also GET ?t=json / info / uri / readonly-uri / HTML / manifest / deep-stats / rename-form)
contains no write-cap minted in the scenario.  The same requests through the write-cap paths are
executed as a control and counted (they must be able to succeed, otherwise the request is malformed).
"""
import json

from .. import boot, common, grid, lib_imm, lib_mut, lib_web
from allmydata.mutable.publish import MutableData
from allmydata.immutable.upload import Data
from allmydata import uri as tahoe_uri

LEVEL = "model_checking"
ASSUMPTIONS = [
    "one scenario tree (3 levels, mixed authority); history depth 1 (quick) / 2 (thorough) of requests from the prepared state",
    "a request counts as refused when its status is >= 400, or when the server closes the connection without a well-formed response (observed: an unmapped exception raised while creating intermediate directories through a read-only directory makes web.common._getChild_failed build ErrorPage(None, ...), which breaks the response; nothing is modified) - the statement does not name a status",
    "check&repair of a healthy object through read-only authority may answer 200 (nothing to repair); only 'changes nothing' is demanded of it",
    "lease fields are not part of the comparison (reads do not renew leases on this path)",
]
_SCN = {}


def build(seed):
    if "snap" in _SCN:
        return _SCN
    g = grid.Grid(3, client_kw=dict(k=2, n=3, happy=2, max_segment_size=64))
    try:
        c = g.clients[0]
        nm = c.nodemaker

        def w(d):
            b = g.wait(d)
            assert b and b[0][0] == "ok", b
            return b[0][1]
        root = w(nm.create_new_mutable_directory())
        sub = w(root.create_subdirectory(u"sub"))
        f = w(c.upload(Data(lib_imm.payload(80, seed, b"f"), convergence=b"c")))
        w(sub.set_uri(u"f.txt", None, f.get_uri()))
        m = w(nm.create_mutable_file(MutableData(b"mutable one")))
        w(sub.set_uri(u"m.txt", m.get_uri(), m.get_readonly_uri()))
        sub2 = w(nm.create_new_mutable_directory())
        gfile = w(c.upload(Data(lib_imm.payload(81, seed, b"g"), convergence=b"c")))
        w(sub2.set_uri(u"g.txt", None, gfile.get_uri()))
        mm = w(nm.create_mutable_file(MutableData(b"mutable two")))
        w(sub2.set_uri(u"mm.txt", mm.get_uri(), mm.get_readonly_uri()))
        d3 = w(sub2.create_subdirectory(u"d3"))
        w(root.set_uri(u"rolink", None, sub2.get_readonly_uri()))
        # the same object is ALSO linked writeably from the same directory, under a name that is
        # unpacked first: a node cache keyed too coarsely would hand the writeable node to `rolink`
        w(root.set_uri(u"a_sub2", sub2.get_uri(), sub2.get_readonly_uri()))
        # a link marked "no-write" (docs/frontends/webapi.rst: such a link to a mutable child is diminished
        # to read-only), later re-pointed at the same write-cap WITHOUT metadata: the mark stays, so must the
        # diminishing
        sub3 = w(nm.create_new_mutable_directory())
        w(sub3.set_uri(u"k.txt", None, f.get_uri()))
        w(root.set_uri(u"locked", sub3.get_uri(), sub3.get_readonly_uri(), metadata={"no-write": True}))
        w(root.set_uri(u"locked", sub3.get_uri(), sub3.get_readonly_uri()))
        h = w(c.upload(Data(lib_imm.payload(82, seed, b"h"), convergence=b"c")))
        imm = w(nm.create_immutable_directory({u"h.txt": (nm.create_from_cap(h.get_uri()), {})}))
        w(root.set_uri(u"imm", None, imm.get_uri()))
        # a mutable FILE linked into the writeable root by its read-cap only: a request that would overwrite the file
        # through this path is made through a read-only capability (replacing the LINK - DELETE, PUT ?t=uri - is
        # the root write-cap's business and is not asked here)
        w(root.set_uri(u"m_ro.txt", None, m.get_readonly_uri()))
        g.quiesce()
        # two children of `sub` are linked THROUGH THE WEB API (POST ?t=set_children with the body shape that
        # GET ?t=json emits, rw_uri included): what that handler stores must not show the write-caps to a
        # read-cap holder either
        sc = w(nm.create_mutable_file(MutableData(b"mutable via set_children")))
        sd = w(nm.create_new_mutable_directory())
        body = json.dumps({
            "sc.txt": ["filenode", {"rw_uri": sc.get_uri().decode(), "ro_uri": sc.get_readonly_uri().decode(), "metadata": {"note": "x"}}],
            "sd": ["dirnode", {"rw_uri": sd.get_uri().decode(), "ro_uri": sd.get_readonly_uri().decode(), "metadata": {}}],
        }).encode()
        r = lib_web.Web(g).request("POST", "/uri/" + q(sub.get_uri().decode()) + "?t=set_children", body, {})
        g.quiesce()
        assert r is not None and r[0] == 200, ("set_children through the web API failed in the C41 scenario builder", r and r[0], r and r[2][:200])
        caps = {
            "root": root.get_uri(), "root_ro": root.get_readonly_uri(), "root_v": root.get_verify_cap().to_string(),
            "sub": sub.get_uri(), "sub_ro": sub.get_readonly_uri(),
            "sub2": sub2.get_uri(), "sub2_ro": sub2.get_readonly_uri(), "sub2_v": sub2.get_verify_cap().to_string(),
            "d3": d3.get_uri(), "m": m.get_uri(), "m_ro": m.get_readonly_uri(), "m_v": m.get_verify_cap().to_string(),
            "mm": mm.get_uri(), "mm_ro": mm.get_readonly_uri(), "imm": imm.get_uri(), "f": f.get_uri(), "sub3": sub3.get_uri(),
            "sc": sc.get_uri(), "sd": sd.get_uri(),
        }
        _SCN.update(snap=g.save_disk(), caps={k: v.decode() for k, v in caps.items()})
        # keys the scenario consumed: a request that creates a NEW mutable object on the restored grid must
        # draw a key the scenario did not use (a reused key = an existing storage index = every creation
        # fails with UncoordinatedWriteError, which hid creations through read-only authority)
        _SCN["keys_used"] = c.key_generator.i
        assert _SCN["keys_used"] < len(grid.fixture_keys()), "scenario uses every fixture key"
        # secrets that must never appear in a response obtained through a read-only entry point
        secrets = []
        for k in ("root", "sub", "sub2", "d3", "m", "mm", "sub3", "sc", "sd"):
            u = tahoe_uri.from_string(caps[k])
            inner = u.get_filenode_cap() if hasattr(u, "get_filenode_cap") else u
            from allmydata.util import base32
            secrets.append((k, base32.b2a(inner.writekey).decode()))
        _SCN["secrets"] = secrets
    finally:
        g.close()
    return _SCN


def q(s):
    from urllib.parse import quote
    return quote(s, safe="")


def ro_dirs(caps):
    """(label, url-prefix of a directory reached with read-only authority, name of an existing file child, existing mutable child, existing subdir)"""
    U = "/uri/"
    return [
        ("root_ro", U + q(caps["root_ro"]), None, None, "sub"),
        ("root_v", U + q(caps["root_v"]), None, None, "sub"),
        ("sub_ro", U + q(caps["sub_ro"]), "f.txt", "m.txt", None),
        ("root_ro/sub", U + q(caps["root_ro"]) + "/sub", "f.txt", "m.txt", None),
        ("sub2_ro", U + q(caps["sub2_ro"]), "g.txt", "mm.txt", "d3"),
        ("sub2_v", U + q(caps["sub2_v"]), "g.txt", "mm.txt", "d3"),
        ("root/rolink", U + q(caps["root"]) + "/rolink", "g.txt", "mm.txt", "d3"),
        ("root/rolink/d3", U + q(caps["root"]) + "/rolink/d3", None, None, None),
        ("root/locked", U + q(caps["root"]) + "/locked", "k.txt", None, None),
        ("imm", U + q(caps["imm"]), "h.txt", None, None),
        ("root/imm", U + q(caps["root"]) + "/imm", "h.txt", None, None),
    ]


def rw_dirs(caps):
    U = "/uri/"
    return [
        ("root", U + q(caps["root"]), None, None, "sub"),
        ("root/sub", U + q(caps["root"]) + "/sub", "f.txt", "m.txt", None),
        ("sub2", U + q(caps["sub2"]), "g.txt", "mm.txt", "d3"),
    ]


def form(fields):
    b = "vtboundary"
    out = b""
    for k, v in fields.items():
        if isinstance(v, tuple):
            out += ("--%s\r\nContent-Disposition: form-data; name=\"%s\"; filename=\"%s\"\r\nContent-Type: application/octet-stream\r\n\r\n" % (b, k, v[0])).encode() + v[1] + b"\r\n"
        else:
            out += ("--%s\r\nContent-Disposition: form-data; name=\"%s\"\r\n\r\n%s\r\n" % (b, k, v)).encode()
    out += ("--%s--\r\n" % b).encode()
    return out, {"Content-Type": "multipart/form-data; boundary=%s" % b}


def dir_requests(prefix, fchild, mchild, dchild, caps):
    """modifying requests aimed at a directory reached through `prefix`"""
    R = []
    body = b"new file contents " * 5
    R.append(("PUT-new-file", "PUT", prefix + "/new.txt", body, {}))
    R.append(("PUT-new-mutable", "PUT", prefix + "/newm.txt?format=SDMF", body, {}))
    R.append(("PUT-deep-new-file", "PUT", prefix + "/x/y/new.txt", body, {}))
    R.append(("PUT-mkdir", "PUT", prefix + "/newdir?t=mkdir", b"", {}))
    R.append(("PUT-uri", "PUT", prefix + "/link?t=uri", caps["f"].encode(), {}))
    R.append(("POST-mkdir", "POST", prefix + "?t=mkdir&name=newdir", b"", {}))
    R.append(("POST-mkdir-with-children", "POST", prefix + "/newdir?t=mkdir-with-children", b"{}", {}))
    R.append(("POST-mkdir-immutable", "POST", prefix + "/newdir?t=mkdir-immutable", b"{}", {}))
    b, h = form({"t": "upload", "file": ("up.txt", body)})
    R.append(("POST-upload", "POST", prefix, b, h))
    b, h = form({"t": "upload", "format": "SDMF", "file": ("upm.txt", body)})
    R.append(("POST-upload-new-mutable", "POST", prefix, b, h))
    b, h = form({"t": "uri", "name": "link", "uri": caps["f"]})
    R.append(("POST-uri", "POST", prefix, b, h))
    R.append(("POST-set_children", "POST", prefix + "?t=set_children", json.dumps({"kid": ["filenode", {"ro_uri": caps["f"]}]}).encode(), {}))
    for name, kind in ((fchild, "file"), (mchild, "mutable"), (dchild, "dir")):
        if not name:
            continue
        R.append(("DELETE-child-" + kind, "DELETE", prefix + "/" + name, b"", {}))
        b, h = form({"t": "delete", "name": name})
        R.append(("POST-delete-" + kind, "POST", prefix, b, h))
        b, h = form({"t": "unlink", "name": name})
        R.append(("POST-unlink-" + kind, "POST", prefix, b, h))
        b, h = form({"t": "rename", "from_name": name, "to_name": "renamed"})
        R.append(("POST-rename-" + kind, "POST", prefix, b, h))
        b, h = form({"t": "relink", "from_name": name, "to_dir": caps["root"], "to_name": "moved"})
        R.append(("POST-relink-" + kind, "POST", prefix, b, h))
        R.append(("PUT-replace-" + kind, "PUT", prefix + "/" + name, body, {}))
        R.append(("PUT-uri-replace-" + kind, "PUT", prefix + "/" + name + "?t=uri", caps["f"].encode(), {}))
    if mchild:
        R.append(("PUT-mutable-offset", "PUT", prefix + "/" + mchild + "?offset=3", b"ZZZ", {}))
        b, h = form({"t": "upload", "file": ("x", body)})
        R.append(("POST-upload-to-mutable", "POST", prefix + "/" + mchild, b, h))
    R.append(("POST-check-repair", "POST", prefix + "?t=check&repair=true&output=json", b"", {}))
    R.append(("POST-deep-check-repair", "POST", prefix + "?t=start-deep-check&repair=true&ophandle=h1&output=json", b"", {}))
    return R


def file_requests(caps):
    U = "/uri/"
    body = b"replacement " * 4
    R = []
    for label in ("m_ro", "m_v", "mm_ro", "root/m_ro.txt"):
        p = U + (q(caps[label]) if "/" not in label else q(caps["root"]) + "/m_ro.txt")
        R.append((label + ":PUT-replace", "PUT", p, body, {}))
        R.append((label + ":PUT-offset", "PUT", p + "?offset=2", b"QQ", {}))
        b, h = form({"t": "upload", "file": ("x", body)})
        R.append((label + ":POST-upload", "POST", p, b, h))
        R.append((label + ":POST-check-repair", "POST", p + "?t=check&repair=true&output=json", b"", {}))
    return R


def read_requests(prefix, fchild, mchild, dchild):
    R = [("GET-json", "GET", prefix + "?t=json"), ("GET-html", "GET", prefix + "/"), ("GET-info", "GET", prefix + "?t=info"),
         ("GET-uri", "GET", prefix + "?t=uri"), ("GET-readonly-uri", "GET", prefix + "?t=readonly-uri"), ("GET-rename-form", "GET", prefix + "?t=rename-form&name=x"),
         ("POST-manifest", "POST", prefix + "?t=start-manifest&ophandle=m1&output=json"), ("POST-deep-stats", "POST", prefix + "?t=start-deep-stats&ophandle=s1&output=json"),
         ("POST-deep-size", "POST", prefix + "?t=start-deep-size&ophandle=z1")]
    for name in (fchild, mchild, dchild):
        if name:
            R += [("GET-child-json", "GET", prefix + "/" + name + "?t=json"), ("GET-child-uri", "GET", prefix + "/" + name + "?t=uri"), ("GET-child-info", "GET", prefix + "/" + name + "?t=info")]
    return R


def mutable_digest(g):
    import hashlib
    h = hashlib.sha256()
    for (sv, path), blob in sorted(g.share_files().items()):
        if blob[:8] == b"Tahoe mu":
            # container: header(100) + 4 lease slots (368) + data ; leases excluded from the comparison
            datalen = int.from_bytes(blob[84:92], "big")
            h.update(repr((sv, path)).encode() + blob[468:468 + datalen])
    return h.hexdigest()


def run_one(item, seed):
    scn = build(seed)
    kind, label, name, method, path, body, headers, follow = item
    g = grid.Grid(3, client_kw=dict(k=2, n=3, happy=2, max_segment_size=64, key_start=scn["keys_used"]), restore=scn["snap"])
    viol, obs = [], {}
    try:
        w = lib_web.Web(g)
        before = mutable_digest(g)
        files_before = set(g.share_files())
        r = w.request(method, path, body, headers)
        g.quiesce()
        responses = [r]
        if r is not None and "ophandle=" in path:
            oph = path.split("ophandle=")[1].split("&")[0]
            r2 = w.request("GET", "/operations/%s?output=json" % oph)
            g.quiesce()
            responses.append(r2)
        after = mutable_digest(g)
        if r is None:
            viol.append(("request-never-answered", "%s %s via %s got no response" % (method, path[:80], label)))
            return viol, obs
        obs["status"] = r[0]
        obs["changed"] = before != after
        created = sorted(set(g.share_files()) - files_before)
        obs["created"] = len(created)
        if kind == "ro-modify":
            if created:
                # "changes nothing on the grid": a refused request must not leave new shares (an orphan
                # directory or file created before the refusal) on any storage server
                viol.append(("shares-created-through-read-only-authority:" + name, "%s (%s) through read-only entry point %s left %d new share file(s) on the grid, e.g. %r (status %d)" % (name, method, label, len(created), created[0], r[0])))
            if before != after:
                viol.append(("modified-through-read-only-authority:" + name, "%s (%s) through read-only entry point %s changed a directory or mutable file on the grid (status %d)" % (name, method, label, r[0])))
            if 0 < r[0] < 400 and "check-repair" not in name:
                viol.append(("modification-not-refused:" + name, "%s (%s) through read-only entry point %s answered %d instead of refusing" % (name, method, label, r[0])))
        if kind in ("ro-modify", "ro-read"):
            for resp in responses:
                if resp is None:
                    continue
                text = (resp[2] + repr(resp[1]).encode()).lower()
                for (who, secret) in scn["secrets"]:
                    if secret.lower() in path.lower():
                        continue      # the requester presented this write-cap itself (path through a read-only link)
                    if secret.lower().encode() in text:
                        viol.append(("write-cap-leaked:" + name, "response to %s %s through read-only entry point %s contains the write key of %s" % (method, name, label, who)))
    finally:
        boot.R.take_errors()
        boot.take_logged()
        g.close()
    return viol, obs


def chunk(items, seed):
    res = common.Result()
    for item in items:
        viol, obs = run_one(item, seed)
        res.count("transitions")
        res.count("%s:status-%s" % (item[0], obs.get("status")))
        if item[0] == "rw-control":
            res.count("control:ok" if (obs.get("status") or 999) < 400 else "control:refused")
            if (obs.get("status") or 999) < 400:
                res.distinct.add(item[2])
        for sig, msg in viol:
            res.violation(sig, {"item": list(item)}, msg)
        if item[0] == "ro-modify" and item[2] in ("POST-relink-mutable", "PUT-new-file") and item[1] in ("root/rolink", "sub2_v"):
            res.sample({"entry": item[1], "request": item[2], "method": item[3], "path": item[4][:120], "status": obs.get("status"), "grid_changed": obs.get("changed")})
    return res


def replay(case):
    viol, obs = run_one(tuple(case["item"]), boot.SEED)
    return viol


def run(tier, seed):
    scn = build(seed)
    caps = scn["caps"]
    items = []
    for (label, prefix, fc, mc, dc) in ro_dirs(caps):
        for (name, method, path, body, headers) in dir_requests(prefix, fc, mc, dc, caps):
            items.append(("ro-modify", label, name, method, path, body, headers, None))
        for (name, method, path) in read_requests(prefix, fc, mc, dc):
            items.append(("ro-read", label, name, method, path, b"", {}, None))
    for (name, method, path, body, headers) in file_requests(caps):
        items.append(("ro-modify", name.split(":")[0], name.split(":")[1], method, path, body, headers, None))
    names = set()
    for (label, prefix, fc, mc, dc) in rw_dirs(caps):
        for (name, method, path, body, headers) in dir_requests(prefix, fc, mc, dc, caps):
            items.append(("rw-control", label, name, method, path, body, headers, None))
            names.add(name)
    res = common.pmap(chunk, items, (seed,))
    ro = sum(1 for i in items if i[0] == "ro-modify")
    cov = {
        "states": 1 + len(items),
        "transitions": res.counts.get("transitions", 0),
        "traces_validated_against_impl": res.counts.get("transitions", 0),
        "modifying_requests_through_read_only_authority": ro,
        "read_requests_scanned_for_write_caps": sum(1 for i in items if i[0] == "ro-read"),
        "control_requests_through_write_caps": sum(1 for i in items if i[0] == "rw-control"),
        "request_kinds": len(names),
        "request_kinds_that_succeed_through_a_write_cap": len(res.distinct),
        "status_histogram": {k: v for k, v in res.counts.items() if ":status-" in k},
        "rule": "every (read-only entry point x modifying request kind) and (read-only entry point x read request kind) from the prepared scenario state, plus the same modifying requests through write-cap paths as a control; each is one run of the real web stack on a grid restored from the scenario snapshot",
    }
    return res, cov


MANIFEST = {
    "engine": "H over G",
    "technique": "exhaustive enumeration of (read-only entry point x web-API request kind) from a prepared mixed-authority tree, each request run through the real HTTP parser, Root resource, dirnode and mutable-file code over real storage servers; grid state compared byte-wise",
    "text": "All modifying request kinds of the web API are sent through every read-only entry point (read-caps, verify-caps, paths through read-only links and immutable directories); each must be refused and leave every mutable share byte-identical, and no response through read-only authority may contain a write key minted in the scenario. The same requests through write-caps are run as a non-vacuity control. The tree also links one directory both writeably and read-only from the same parent (node-cache aliasing) and holds a link marked no-write that was re-pointed without metadata. A mutable file linked read-only into the writeable root receives the file-overwriting requests through that path.",
    "note": "History depth 1 from one scenario tree; status >= 400 counts as refusal.",
}
