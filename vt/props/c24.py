"""C24  Read-test-write is atomic and guarded by the write enabler  (Engine E over H states).

System under test: real StorageServer behind FoolscapStorageServer.remote_slot_testv_and_readv_and_writev
on tmpfs.  One slot, share numbers {0,1,2}.

States ("every state of a small closure"): the closure of the request alphabet below is computed
analytically per share, because shares only interact through the request, not through their
contents: a share is absent, or was created with write enabler W1 or W2 and holds one of the
data values that the alphabet can produce from the two initial payloads
    { "" , "\\0ZZ" , D , D[0] "ZZ" D[3:] }          (D = 5 distinct bytes, per share number)
Every share file is produced by the REAL server (create in an empty slot, then apply the write
vector), its bytes are kept, and a state is materialised by placing such files for shares 0 and 1
(quick: data in {"", D}; thorough: all four, and share 2 present as well) into the bucket
directory.  That includes the states the API cannot reach by itself but an operator can (share
migration): share 0 created under W1 next to share 1 created under W2 - the statement names them.
In thorough every applied request's resulting state is checked to lie inside the enumerated set
(closure check, up to renaming the single enabler of a slot that was created from nothing with the
"garbage" enabler), so "every state reachable by the alphabet from these roots" is literally covered.

Requests: EVERY element of
    named shares S subset of {0,1,2}  x  per named share ( test vector in {none, pass, fail}
    x write vector in {none, [(1,"ZZ")]} x new_length in {None, 0} )  x  write enabler in {W1, W2,
    garbage}  x  read vector in {[], [(0,100)]}                        = 13 182 per state.
"pass" = (0,3,eq,<first 3 bytes of the current data>), for an absent share (0,3,eq,"");
"fail" = (0,3,eq,ff fe fd).

Oracle (only what the statement says):
  applies  <=>  no named test fails  and  the enabler equals the enabler of EVERY existing share
                (named or not).
  applies      -> result (True, reads); afterwards every named share is deleted (new_length 0) or
                  holds pre-data with the vector applied (gap zero-filled); a named absent share
                  with no write vector may or may not have been created empty (silent; counted);
                  unnamed shares byte-identical.
  not applies  -> no share's data/existence/enabler changed (a lease-only change of a container
                  would be counted, not flagged; none occurs), and the request either returns
                  (False, reads) or raises BadWriteEnablerError (only when the enabler mismatches).
  reads        -> whenever a result is returned: exactly one entry per share existing BEFORE the
                  request, holding the pre-request data (interfaces.py: "all known shares, before
                  any writes").
"""
import itertools
import os

from .. import common
from .. import lib_storage as L

from allmydata.interfaces import BadWriteEnablerError

LEVEL = "model_checking"
ASSUMPTIONS = [
    "one slot, share numbers {0,1,2}; per named share one of 12 (testv, writev, new_length) combinations; requests are enumerated completely for every enumerated state",
    "states: shares 0,1 (thorough: and 2) each absent or created under W1/W2 with data from the closure of the write alphabet; per-share data values do not interact (by inspection: vectors are evaluated per share)",
    "mixed-enabler states are materialised by placing share files created by the real server side by side (share migration); the API alone cannot reach them",
    "the mutable slot code keeps no in-memory state, so a state can be restored from its bytes (same argument and cross-check as C23)",
]

SI = b"\xc4\x24" + b"T" * 14
ENABLERS = {"W1": b"W1" * 16, "W2": b"W2" * 16, "G": b"\x99" * 32,
            # proper prefixes of W1: a shorter secret that agrees with the stored enabler as far as it goes
            "P16": (b"W1" * 16)[:16], "P1": (b"W1" * 16)[:1]}
SECRETS = (b"rn24" * 8, b"cn24" * 8)
VEC = (1, b"ZZ")
FAIL_TV = [(0, 3, b"eq", b"\xff\xfe\xfd")]
PER_SHARE = [(tv, wv, nl) for tv in ("none", "pass", "fail") for wv in (0, 1) for nl in (None, 0)]
# test vectors whose length differs from the specimen's: "absent" = the publisher's must-not-exist test
# (0, 1, eq, b""), which passes only on a share without data; "short" = (0, 2, eq, <5 bytes>), which
# compares 2 bytes of the share with a 5-byte specimen and can never pass
PER_SHARE += [("absent", 1, None), ("absent", 0, None), ("short", 1, None)]
# two vectors for one share, the failing one first and a passing one last: all of them must hold
PER_SHARE += [("fail+pass", 1, None)]


def tv_passes(tv, cur):
    data = cur[1] if cur else b""
    if tv in ("none", "pass"):
        return True
    if tv == "absent":
        return data[0:1] == b""
    return False            # "fail", "short"


def payload(sh, seed):
    return bytes(0x61 + (sh * 5 + i + seed) % 26 for i in range(5))


def apply_vec(data):
    d = bytearray(data)
    if len(d) < VEC[0]:
        d.extend(b"\x00" * (VEC[0] - len(d)))
    d[VEC[0]:VEC[0] + len(VEC[1])] = VEC[1]
    return bytes(d)


def data_values(sh, seed, full):
    """Data values a share can hold in the enumerated states (closed under the write alphabet)."""
    if sh == 2:
        return [b"", apply_vec(b"")] if full else []
    D = payload(sh, seed)
    vals = [b"", D]
    if full:
        vals += [apply_vec(b""), apply_vec(D)]
    return vals


def make_share_files(seed, full):
    """{(sh, enabler name, data): file bytes}, every file produced by the real server in an otherwise empty slot."""
    out = {}
    box = L.Box()
    try:
        sd = L.SlotDir(box, SI)
        for sh in (0, 1, 2):
            for en in ("W1", "W2"):
                for data in data_values(sh, seed, full):
                    sd.restore({})
                    secrets = (ENABLERS[en],) + SECRETS
                    base = data
                    vec = False
                    if data not in (b"", payload(sh, seed)):
                        vec = True
                        base = b"" if data == apply_vec(b"") else payload(sh, seed)
                    ok, _ = box.fss.remote_slot_testv_and_readv_and_writev(SI, secrets, {sh: ([], [(0, base)] if base else [], None)}, [])
                    assert ok
                    if vec:
                        ok, _ = box.fss.remote_slot_testv_and_readv_and_writev(SI, secrets, {sh: ([], [VEC], None)}, [])
                        assert ok
                    raw = sd.snap()[str(sh)]
                    if L.parse_mutable(raw)["data"] != data:
                        raise RuntimeError("could not build share file with data %r" % (data,))
                    out[(sh, en, data)] = raw
    finally:
        box.close()
    return out


def enumerate_states(seed, full):
    """list of states; a state = tuple over share numbers (0,1,2) of None | (enabler name, data)"""
    per = []
    for sh in (0, 1, 2):
        opts = [None]
        for en in ("W1", "W2"):
            for d in data_values(sh, seed, full):
                opts.append((en, d))
        per.append(opts)
    return [tuple(c) for c in itertools.product(*per)]


def build_request(named, combo, state):
    tw = {}
    for sh, (tv, wv, nl) in zip(named, combo):
        cur = state[sh]
        if tv == "none":
            testv = []
        elif tv == "pass":
            testv = [(0, 3, b"eq", (cur[1] if cur else b"")[:3])]
        elif tv == "fail+pass":
            testv = list(FAIL_TV) + [(0, 3, b"eq", (cur[1] if cur else b"")[:3])]
        elif tv == "absent":
            testv = [(0, 1, b"eq", b"")]
        elif tv == "short":
            d5 = (cur[1] if cur else b"")[:5]
            testv = [(0, 2, b"eq", d5 if len(d5) == 5 else b"abcde")]
        else:
            testv = list(FAIL_TV)
        tw[sh] = (testv, [VEC] if wv else [], nl)
    return tw


def expected(state, named, combo, en):
    """-> (applies, post) ; post: {sh: set of acceptable (enabler, data) | None}"""
    existing = [s for s in state if s is not None]
    enabler_ok = all(s[0] == en for s in existing)
    tests_ok = all(tv_passes(tv, state[sh]) for sh, (tv, wv, nl) in zip(named, combo))
    applies = enabler_ok and tests_ok
    post = {sh: [state[sh]] for sh in (0, 1, 2)}
    if applies:
        for sh, (tv, wv, nl) in zip(named, combo):
            cur = state[sh]
            if nl == 0:
                post[sh] = [None]
            elif cur is None:
                if wv:
                    post[sh] = [(en, apply_vec(b""))]
                else:
                    post[sh] = [(en, b""), None]
            else:
                post[sh] = [(cur[0], apply_vec(cur[1]) if wv else cur[1])]
    return applies, enabler_ok, tests_ok, post


def observed_state(snap):
    out = []
    for sh in (0, 1, 2):
        raw = snap.get(str(sh))
        if raw is None:
            out.append(None)
        else:
            p = L.parse_mutable(raw)
            en = [k for k, v in ENABLERS.items() if v == p["write_enabler"]]
            out.append((en[0] if en else "?", p["data"]))
    return tuple(out)


def show_state(st):
    return "{" + ", ".join("%d:%s" % (i, "absent" if s is None else "%s/%r" % s) for i, s in enumerate(st)) + "}"


def check_request(box, sd, files, state, named, combo, en, rv):
    """Materialise `state`, run ONE request on the real server, return [(sig, msg)] and outcome label."""
    snap = {"%d" % sh: files[(sh, s[0], s[1])] for sh, s in enumerate(state) if s is not None}
    if snap:
        snap["."] = b""
    sd.restore(snap)
    pre_snap = sd.snap()
    tw = build_request(named, combo, state)
    readv = [(0, 100)] if rv else []
    applies, enabler_ok, tests_ok, post = expected(state, named, combo, en)
    out = []
    desc = "state %s; request shares=%r enabler=%s readv=%r tw=%r" % (show_state(state), {sh: c for sh, c in zip(named, combo)}, en, readv, tw)
    exc = result = None
    try:
        result = box.fss.remote_slot_testv_and_readv_and_writev(SI, (ENABLERS[en],) + SECRETS, tw, readv)
    except BadWriteEnablerError as e:
        exc = e
    except Exception as e:  # noqa
        exc = e
        out.append(("request-raised:" + L.exc_name(e), "%s raised %r" % (desc, e)))
    after = sd.snap()
    got = observed_state(after)
    label = "applied" if applies else ("refused:enabler" if not enabler_ok else "refused:test")
    # ---- what happened on disk
    if not applies:
        if got != state:
            changed = [sh for sh in (0, 1, 2) if got[sh] != state[sh]]
            sig = "written-with-wrong-enabler" if not enabler_ok else "written-despite-failed-test"
            if enabler_ok is False and tests_ok is False:
                sig = "written-with-wrong-enabler-and-failed-test"
            out.append((sig, "%s: must not apply (enabler matches every existing share: %s, all tests pass: %s) but share(s) %r changed: now %s"
                        % (desc, enabler_ok, tests_ok, changed, show_state(got))))
        elif after != pre_snap:
            label += "+lease-bytes-changed"
    else:
        wrong = [sh for sh in (0, 1, 2) if got[sh] not in post[sh]]
        if wrong:
            named_wrong = [sh for sh in wrong if sh in named]
            unchanged = [sh for sh in named_wrong if got[sh] == state[sh]]
            done = [sh for sh in named if sh not in wrong and post[sh] != [state[sh]]]
            if [sh for sh in wrong if sh not in named]:
                sig = "unnamed-share-changed"
            elif unchanged == named_wrong and done:
                sig = "partially-applied"
            elif unchanged == named_wrong:
                sig = "writes-not-applied"
            else:
                sig = "wrong-post-state"
            out.append((sig, "%s: must apply all writes; expected %s, disk now %s (shares %r wrong)"
                        % (desc, {sh: post[sh] for sh in (0, 1, 2)}, show_state(got), wrong)))
        for sh in named:
            if state[sh] is None and len(post[sh]) == 2:
                label += "+empty-create:%s" % ("yes" if got[sh] is not None else "no")
                break
    # ---- what was reported
    if exc is not None:
        if isinstance(exc, BadWriteEnablerError):
            if enabler_ok:
                out.append(("spurious-BadWriteEnablerError", "%s: the enabler matches every existing share but BadWriteEnablerError was raised" % desc))
            label += "/raised"
    else:
        try:
            ok, reads = result
        except Exception:  # noqa
            out.append(("malformed-result", "%s returned %r" % (desc, result)))
            return out, label
        if bool(ok) != applies:
            sig = "reported-success-but-must-refuse" if ok else "reported-failure-but-must-apply"
            out.append((sig, "%s returned success=%r, expected %r" % (desc, ok, applies)))
        want_reads = {sh: ([s[1][:100]] if rv else []) for sh, s in enumerate(state) if s is not None}
        if dict(reads) != want_reads:
            post_reads = {sh: ([s[1][:100]] if rv else []) for sh, s in enumerate(got) if s is not None}
            sig = "reads-reflect-post-state" if dict(reads) == post_reads and post_reads != want_reads else "reads-not-prestate"
            out.append((sig, "%s returned read data %r; the data before the request was %r" % (desc, dict(reads), want_reads)))
        label += "/returned"
    return out, label


def all_requests():
    for k in range(4):
        for named in itertools.combinations((0, 1, 2), k):
            for combo in itertools.product(PER_SHARE, repeat=k):
                for en in ("W1", "W2", "G"):
                    for rv in (0, 1):
                        yield named, combo, en, rv


def chunk_fn(chunk, seed, full):
    """chunk: [(state, named)]: all requests naming exactly `named` from `state`."""
    res = common.Result()
    files = make_share_files(seed, full)
    allstates = set(enumerate_states(seed, full)) if full else None
    box = L.Box()
    try:
        sd = L.SlotDir(box, SI)
        for state, named in chunk:
            k = len(named)
            for combo in itertools.product(PER_SHARE, repeat=k):
                for en in ("W1", "W2", "G") + (("P16", "P1") if any(s_ is not None for s_ in state) and len(combo) <= 2 else ()):
                    for rv in (0, 1):
                        bad, label = check_request(box, sd, files, state, named, combo, en, rv)
                        res.count("evaluations")
                        res.count("outcome:" + label)
                        res.distinct.add(label)
                        for sig, msg in bad:
                            res.violation(sig, {"state": state, "named": list(named), "combo": [list(c) for c in combo], "enabler": en, "readv": rv, "seed": seed, "full": full}, msg)
                        if not bad and allstates is not None and label.startswith("applied"):
                            got = observed_state(sd.snap())
                            used = set(x[0] for x in got if x is not None)
                            if "G" in used and len(used) == 1:
                                # a slot created from nothing under the garbage enabler: the same state up to
                                # the NAME of its single enabler (enablers are only ever compared for equality)
                                got = tuple(None if x is None else ("W1", x[1]) for x in got)
                            if got not in allstates:
                                res.violation("harness:state-outside-closure", {"state": state}, "applied request led to %s which is not among the enumerated states" % show_state(got))
                            res.count("closure_checks")
            if any(s is not None for s in state) and len(set(s[0] for s in state if s is not None)) > 1:
                res.count("mixed_enabler_state_visits")
    finally:
        box.close()
    return res


def replay(case):
    seed, full = case.get("seed", 0), case.get("full", False)
    files = make_share_files(seed, full)
    state = tuple(None if s is None else (s[0], s[1]) for s in case["state"])
    named = tuple(case["named"])
    combo = tuple((c[0], c[1], c[2]) for c in case["combo"])
    box = L.Box()
    try:
        sd = L.SlotDir(box, SI)
        bad, label = check_request(box, sd, files, state, named, combo, case["enabler"], case["readv"])
        return bad
    finally:
        box.close()


def run(tier, seed):
    full = tier == "thorough"
    states = enumerate_states(seed, full)
    if os.environ.get("VERIF_C24_STATES"):
        states = states[:int(os.environ["VERIF_C24_STATES"])]
    subsets = [named for k in range(4) for named in itertools.combinations((0, 1, 2), k)]
    items = [(st, named) for st in states for named in subsets]
    # simplest first (fewest named shares), so that the first reported case of a signature is a small one
    items.sort(key=lambda it: len(it[1]))
    res = common.pmap(chunk_fn, items, (seed, full), chunks=min(len(items), common.NWORKERS * 12))
    nreq = sum(1 for _ in all_requests())
    cov = {
        "states": len(states),
        "transitions": res.counts.get("evaluations", 0),
        "traces_validated_against_impl": res.counts.get("evaluations", 0),
        "requests_per_state": nreq,
        "distinct_outcomes": len(res.distinct),
        "mixed_enabler_states": sum(1 for st in states if len(set(s[0] for s in st if s is not None)) > 1),
        "closure_checks": res.counts.get("closure_checks", 0),
        "exhaustive": True,
        "rule": "every request of the product (named shares subset of {0,1,2}) x per share (testv none/pass/fail x writev none/one x new_length None/0, plus the must-not-exist test (0,1,eq,'') and a 2-byte test against a 5-byte specimen) x enabler W1/W2/garbage (and, on slots that hold a share, for requests naming <= 2 shares, two proper prefixes of W1) x readv none/one "
                "= %d requests, issued from every one of %d slot states (shares absent or created under W1/W2 with each data value of the alphabet's closure); each request runs on the real server "
                "from a byte-exact materialisation of the state and is compared with the reference decision and post-state" % (nreq, len(states)),
    }
    return res, cov


MANIFEST = {
    "engine": "E",
    "technique": "exhaustive enumeration of every read-test-write request of a finite product from every slot state of a closed state set, on the real StorageServer, against a reference decision procedure",
    "text": "All 13 182 requests (named shares subset of {0,1,2} x per-share test vector none/pass/fail x write vector none/one x new_length None/0 x write enabler W1/W2/garbage x read vector none/one) are issued from every enumerated slot state (shares absent or created under W1 or W2 with each data value the alphabet can produce, including mixed-enabler slots); applied requests must apply everything, refused ones must leave data, existence and enablers untouched, and returned read data must be the pre-request data of every pre-existing share.",
    "note": "States are materialised from share files written by the real server; mixed-enabler slots model share migration. Exhaustive for the stated product; silent about multi-vector writes (C23) and more than 3 shares. Lease-only changes on refusal would be counted, not flagged.",
}
