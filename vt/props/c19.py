"""C19  Directory contents round-trip  (Engine E, exhaustive small scope, memory-backed dirnodes).

Real code: dirnode.pack_children/_pack_normalized_children/_encrypt_rw_uri, DirectoryNode.
_unpack_contents/_decrypt_rwcapdata/Adder, nodemaker.create_from_cap/create_new_mutable_directory/
create_immutable_directory, unknown.UnknownNode, netstring, jsonbytes, normalize.  Fake: where the
packed bytes are kept (vt/lib_memdir.py).

Space.  ENTRY = (name from NAMES[14], cap from the cap catalogue[35: every cap kind of uri.py, known
caps in the "wrong" slot / with ro. imm. prefixes, MDMF with extension fields, 11 unknown-cap shapes (also a ro./imm.-prefixed one given alone in the write slot)
incl. netstring-looking and non-ASCII ones], metadata from META[8]).
  singles : EVERY entry (full product)
  pairs   : EVERY unordered pair of names x EVERY ordered pair of caps x metadata pairs from
            (quick: the one pair ({}, nasty-strings); thorough: 4 x 4 shapes), plus EVERY pair of names x
            EVERY ordered pair of metadata with a fixed (CHK, SSK-rw) cap pair
  triples : thorough only, every 3-subset of the reduced product NAMES3[6] x CAPS3[8] x META3[3]
each through three routes on the real code:
  create : NodeMaker.create_new_mutable_directory(children) (SDMF and MDMF parent), then list()
           in a FRESH client via the write-cap and via the read-cap
  add    : empty directory + set_node() per child in order (exercises the AuxValueDict
           pre-packed-entry shortcut of _pack_normalized_children), then list() as above
  imm    : NodeMaker.create_immutable_directory(children), then list() in a fresh client
Oracle (no more than the statement): after the round trip the directory has exactly the
NFC-normalised names; each child has the same write-cap string (via the write-cap; None via the
read-cap or in an immutable directory), the same read-cap string and the same metadata (route
add: compared without the system-owned 'tahoe' sub-dict).  Two names that normalise to the same
NFC string are not a well-defined child SET: any ONE of the colliding entries may survive, but not a
mixture.  Immutable directories must raise MustBeDeepImmutableError for mutable / write-capable /
unknown-rw children; must accept deep-immutable ones; unknown read-only caps are accepted and come
back with the prefix strengthened to "imm." (documented, ticket #833); verify-caps of mutable
objects and the x-tahoe-future-test-* simulation caps are left free (counted).  Objects that are
not directory children at all (error-carrying UnknownNodes, CiphertextFileNode) must be refused
on every route, never stored.
"""
import itertools
import unicodedata

from .. import common
from ..lib_memdir import World, fire, listing, mkdir
from allmydata import uri
from allmydata.interfaces import MustBeDeepImmutableError
from allmydata.mutable.layout import SDMF_VERSION, MDMF_VERSION

LEVEL = "exploration"
ASSUMPTIONS = [
    "small scope: child sets of size <= 2 (thorough <= 3); entries are packed independently, only names (sorting, NFC collisions) and netstring framing can make entries interact",
    "caps do not end in spaces (trailing spaces are stripped on unpack by design, ticket #925) and names are encodable as UTF-8 (no lone surrogates)",
    "metadata is JSON-native (string keys; no NaN/Infinity; no tuples) and does not set 'no-write': true (that is a documented request to diminish the child, not a round-trip)",
    "the x-tahoe-future-test-mutable:/-writeable: simulation caps and verify-caps of mutable objects inside IMMUTABLE directories are outside the statement: refused, kept or dropped-on-read are all counted, not judged",
    "mutable-file layer (encryption with the read key, shares, servermap) replaced by a dict; DirectoryNode/NodeMaker/UnknownNode are the real classes",
]

NAMES = [
    "a", "b", "A",
    "é",               # é NFC
    "é",              # é NFD  (collides with the previous under NFC)
    "Å",               # ANGSTROM SIGN -> NFC U+00C5
    "Å",               # collides with the previous
    "q̣̇",        # combining marks reordered by NFC
    "가",         # Hangul jamo -> composed U+AC00
    "\U0001f600",           # astral
    "a/b",
    "",                     # empty name (only the web layer forbids it)
    "3:abc,\x00\n ",        # netstring look-alike, NUL, newline, trailing space
    "n" * 300 + "é",   # long
]
NAMES3 = [0, 3, 4, 7, 11, 12]

META = [
    {},
    {"k": 1},
    {"a": {"b": [1, 2, {"c": None}], "t": True, "f": False}},
    {"é": "ü\U0001f600", "é": "nfd-key"},
    {"big": 2 ** 70, "neg": -2 ** 63, "flt": 1202777696.7564139, "tiny": 1e-300},
    {"s": "a,b:c\"\\\n\x00  12:x,", "no-write": False},
    {"tahoe": {"linkcrtime": 1.5, "linkmotime": 2.5, "x": 1}, "ctime": 1.0, "mtime": 2.0},
    {"": "", "l": [], "d": {}, "n": None},
]
META3 = [0, 3, 6]


def catalogue(w):
    """[(label, rw, ro, cls)]; cls: imm | mut | unk-ro | unk-rw | free | notchild"""
    chk = w.new_chk_cap(1000)
    chk2 = w.new_chk_cap(77)
    ssk = w.new_mutable_cap()
    ssk2 = w.new_mutable_cap()
    mdmf = w.new_mutable_cap(mdmf=True)
    mdmf2 = w.new_mutable_cap(mdmf=True)
    dssk = w.new_mutable_cap()
    dmdmf = w.new_mutable_cap(mdmf=True)
    lit = uri.LiteralFileURI(b"hello, literal world")
    S = lambda u: u.to_string()  # noqa: E731
    D = uri.DirectoryURI(dssk)
    DM = uri.MDMFDirectoryURI(dmdmf)
    DC = uri.ImmutableDirectoryURI(chk2)
    DL = uri.LiteralDirectoryURI(uri.LiteralFileURI(b""))
    return [
        ("CHK", None, S(chk), "imm"),
        ("CHK-in-rw-slot", S(chk2), None, "imm"),
        ("imm.CHK", None, b"imm." + S(chk), "imm"),
        ("LIT", None, S(lit), "imm"),
        ("LIT-empty", None, S(uri.LiteralFileURI(b"")), "imm"),
        ("CHK-Verifier", None, S(chk.get_verify_cap()), "notchild"),
        ("SSK", S(ssk), S(ssk.get_readonly()), "mut"),
        ("SSK-rw-only", S(ssk2), None, "mut"),
        ("SSK-RO", None, S(ssk2.get_readonly()), "mut"),
        ("ro.SSK-RO", None, b"ro." + S(ssk.get_readonly()), "mut"),
        ("SSK-Verifier", None, S(ssk.get_verify_cap()), "free"),
        ("MDMF", S(mdmf), S(mdmf.get_readonly()), "mut"),
        ("MDMF-ext", S(mdmf2) + b":3:131073", None, "mut"),
        ("MDMF-RO", None, S(mdmf.get_readonly()), "mut"),
        ("MDMF-Verifier", None, S(mdmf.get_verify_cap()), "free"),
        ("DIR2", S(D), S(D.get_readonly()), "mut"),
        ("DIR2-RO", None, S(D.get_readonly()), "mut"),
        ("DIR2-Verifier", None, S(D.get_verify_cap()), "free"),
        ("DIR2-CHK", None, S(DC), "imm"),
        ("DIR2-CHK-Verifier", None, S(DC.get_verify_cap()), "free"),
        ("DIR2-LIT", None, S(DL), "imm"),
        ("DIR2-MDMF", S(DM), None, "mut"),
        ("DIR2-MDMF-RO", None, S(DM.get_readonly()), "mut"),
        ("DIR2-MDMF-Verifier", None, S(DM.get_verify_cap()), "free"),
        ("unknown-ro", None, b"x-tahoe-crazy-readonly://I_am_from_the_future.", "unk-ro"),
        ("unknown-rw+ro", b"x-tahoe-crazy://I_am_from_the_future.", b"x-tahoe-crazy-readonly://I_am_from_the_future.", "unk-rw"),
        ("unknown-ro.prefixed", None, b"ro.x-tahoe-crazy-readonly://prefixed", "unk-ro"),
        ("unknown-imm.prefixed", None, b"imm.x-tahoe-crazy-immutable://prefixed", "unk-ro"),
        ("unknown-ro.prefixed-in-rw-slot", b"ro.x-tahoe-crazy-readonly://lone", None, "unk-ro"),
        ("unknown-imm.prefixed-in-rw-slot", b"imm.x-tahoe-crazy-immutable://lone", None, "unk-ro"),
        ("unknown-netstringish", b"x-f:0:,1:a,9:rw", "x-f-ro:3:abc,2:☺,".encode("utf-8"), "unk-rw"),
        ("unknown-rw-only", b"x-tahoe-crazy://rw-only", None, "notchild"),
        ("ro.SSK-writecap", None, b"ro." + S(ssk), "notchild"),
        ("test-mutable-ro", None, b"x-tahoe-future-test-mutable:foo", "free"),
        ("test-writeable", b"x-tahoe-future-test-writeable:foo", b"x-tahoe-crazy-readonly://w", "unk-rw"),
    ]


CAPS3_LABELS = ["CHK", "LIT", "SSK", "MDMF-RO", "DIR2", "DIR2-CHK", "unknown-ro", "unknown-rw+ro"]
_CAT_LEN = len(catalogue(World(0, b"c19-len")))


def nfc(s):
    return unicodedata.normalize("NFC", s)


def strip_prefix(u):
    if u is None:
        return None
    for p in (b"imm.", b"ro."):
        if u.startswith(p):
            return u[len(p):]
    return u


def drop_tahoe(md):
    return {k: v for k, v in md.items() if k != "tahoe"}


def observe(children):
    """{name: (is_unknown, write_uri, ro_uri, metadata)}"""
    return {n: (bool(ch.is_unknown()), ch.get_write_uri(), ch.get_readonly_uri(), md) for n, (ch, md) in children.items()}


def try_fire(f, *a, **kw):
    try:
        return fire(f(*a, **kw))
    except Exception as e:  # noqa  (precondition failures are raised synchronously)
        return ("err", e)


class Ctx(object):
    """catalogue + world for one seed (re-used across the cases of a chunk)"""

    def __init__(self, seed):
        self.seed = seed
        self.w = World(seed, b"c19")
        self.cat = catalogue(self.w)


def compare(route, view, got, want_by_name, out):
    """want_by_name: {nfc name: [candidate (unk, rw, ro, md, cls)]}"""
    if set(got) != set(want_by_name):
        out.append(("names-differ", "route %s/%s: names after round trip %r, expected %r" % (route, view, sorted(got), sorted(want_by_name))))
        return
    for name, cands in want_by_name.items():
        g_unk, g_rw, g_ro, g_md = got[name]
        ok = False
        why = []
        for (unk, rw, ro, md, cls) in cands:
            e_rw = rw if view == "rw" else None
            e_ro = ro
            x_ro = g_ro
            if view == "imm":
                e_rw = None
                if unk:   # documented: prefix implied / strengthened to imm. in an immutable directory
                    e_ro, x_ro = strip_prefix(ro), strip_prefix(g_ro)
                    if g_ro is not None and not g_ro.startswith(b"imm."):
                        why.append("unknown child of an immutable directory lacks imm. prefix: %r" % g_ro)
                        continue
            e_md, x_md = md, g_md
            if route == "add":
                e_md, x_md = drop_tahoe(md), drop_tahoe(g_md)
            probs = []
            if g_unk != unk:
                probs.append("is_unknown %r != %r" % (g_unk, unk))
            if g_rw != e_rw:
                probs.append("write-cap %r != %r" % (g_rw, e_rw))
            if x_ro != e_ro:
                probs.append("read-cap %r != %r" % (x_ro, e_ro))
            if x_md != e_md:
                probs.append("metadata %r != %r" % (x_md, e_md))
            if not probs:
                ok = True
                break
            why.append("; ".join(probs))
        if not ok:
            field = "metadata" if all("metadata" in y and "cap" not in y for y in why) else "cap"
            out.append(("roundtrip-%s-differs" % field, "route %s/%s child %r: %s" % (route, view, name, " | ".join(why)[:600])))


def check_case(case, ctx=None):
    """case = {seed, route, parent, entries: [[name_idx, cap_idx, meta_idx], ...]} -> ([(sig,msg)], outcome)"""
    if ctx is None or ctx.seed != case["seed"]:
        ctx = Ctx(case["seed"])
    w, cat = ctx.w, ctx.cat
    c = w.client()
    route = case["route"]
    out = []
    entries = []
    for (ni, ci, mi) in case["entries"]:
        label, rw, ro, cls = cat[ci]
        node = c.create_from_cap(rw, ro)
        entries.append((NAMES[ni], node, META[mi], cls, label))
    want = {}
    groups = {}
    for (namex, node, md, cls, label) in entries:
        groups.setdefault(nfc(namex), []).append(cls)
        if cls == "notchild":
            continue
        cand = (bool(node.is_unknown()), node.get_write_uri(), node.get_readonly_uri(), md, cls)
        if route == "add":
            want[nfc(namex)] = [cand]           # sequential set_node: last one wins
        else:
            want.setdefault(nfc(namex), []).append(cand)
    labels = [e[4] for e in entries]
    version = MDMF_VERSION if case.get("parent") == "mdmf" else SDMF_VERSION

    # A name (after NFC) ALL of whose entries are unstorable forces a refusal; when an unstorable
    # entry collides with a storable one either may win (not a well-defined child set).
    def verdict(refuse_classes):
        if any(all(x in refuse_classes for x in g) for g in groups.values()):
            return "must-refuse"
        if any(any(x in refuse_classes for x in g) for g in groups.values()):
            return "may-refuse"
        return "must-accept"

    if route == "create":
        kids = {namex: (node, md) for (namex, node, md, cls, label) in entries}
        k, v = try_fire(c.create_new_mutable_directory, kids, version=version)
        vd = verdict(("notchild",))
        if k != "ok":
            if vd == "must-accept":
                out.append(("create-failed:%s" % type(v).__name__, "create_new_mutable_directory(%r) failed: %r" % (labels, v)))
                return out, "error"
            return out, "refused"
        if vd == "must-refuse":
            out.append(("stored-unstorable-child", "create_new_mutable_directory accepted %r" % (labels,)))
            return out, "error"
        dn = v
    elif route == "add":
        dn = mkdir(c, mdmf=(version == MDMF_VERSION))
        for (namex, node, md, cls, label) in entries:
            before = w.mutable[dn.get_storage_index()]
            k, v = try_fire(dn.set_node, namex, node, md)
            if cls == "notchild":
                if k == "ok" or w.mutable[dn.get_storage_index()] != before:
                    out.append(("stored-unstorable-child", "set_node accepted/stored %s" % label))
                    return out, "error"
                continue
            if k != "ok":
                out.append(("add-failed:%s" % type(v).__name__, "set_node(%r, %s) failed: %r" % (namex, label, v)))
                return out, "error"
    else:
        kids = {namex: (node, md) for (namex, node, md, cls, label) in entries}
        k, v = try_fire(c.create_immutable_directory, kids)
        vd = verdict(("mut", "unk-rw", "notchild"))
        allcls = [x for g in groups.values() for x in g]
        if k != "ok":
            if vd == "must-accept" and all(x in ("imm", "unk-ro") for x in allcls):
                out.append(("immutable-dir-refused-immutable-child:%s" % type(v).__name__, "create_immutable_directory(%r) failed: %r" % (labels, v)))
                return out, "error"
            if vd == "must-refuse" and "notchild" not in allcls and not isinstance(v, MustBeDeepImmutableError):
                out.append(("immutable-dir-wrong-error:%s" % type(v).__name__, "expected MustBeDeepImmutableError for %r, got %r" % (labels, v)))
            return out, ("refused" if vd != "must-accept" else "free-refused")
        if vd == "must-refuse":
            out.append(("immutable-dir-stored-mutable-child", "create_immutable_directory accepted %r" % (labels,)))
            return out, "error"
        dn = v
        got = observe(listing(w.client().create_from_cap(dn.get_uri())))
        # only deep-immutable / unknown-ro candidates can legitimately be inside
        want_imm = {}
        free_names = set()
        for n, cs in want.items():
            keep = [x for x in cs if x[4] in ("imm", "unk-ro")]
            if any(x[4] == "free" for x in cs):
                free_names.add(n)     # refused / kept / dropped-on-read all accepted (see ASSUMPTIONS)
            elif keep:
                want_imm[n] = keep
        outcome = "ok"
        for n in free_names:
            outcome = "free-kept" if n in got else "free-dropped"
        extra = set(got) - set(want)
        if extra:
            out.append(("names-differ", "route imm: unexpected names %r" % sorted(extra)))
        compare("imm", "imm", {n: x for n, x in got.items() if n not in free_names}, want_imm, out)
        if any(x[1] is not None for x in got.values()):
            out.append(("immutable-dir-yields-write-cap", "child of an immutable directory has a write-cap: %r" % (got,)))
        return out, outcome

    # mutable parent: read back in fresh clients, through the write-cap and through the read-cap
    got_rw = observe(listing(w.client().create_from_cap(dn.get_uri())))
    compare(route, "rw", got_rw, want, out)
    got_ro = observe(listing(w.client().create_from_cap(dn.get_readonly_uri())))
    compare(route, "ro", got_ro, want, out)
    return out, "ok"


def replay(case):
    return check_case(case)[0]


def _nontrivial(case):
    """rule: >= 2 children, or a name that changes under NFC, or an unknown / write-capable cap"""
    if len(case["entries"]) >= 2:
        return True
    (ni, ci, mi) = case["entries"][0]
    return nfc(NAMES[ni]) != NAMES[ni] or ci >= 5


ROUTES = [("create", "sdmf"), ("create", "mdmf"), ("add", "sdmf"), ("add", "mdmf"), ("imm", None)]
ROUTES2 = [("create", "sdmf"), ("add", "mdmf"), ("imm", None)]
META_T = [0, 3, 5, 6]


def expand(block, tier):
    """block descriptors keep the parent process small: the cases of a block are generated in the
    worker.  -> iterator of (route, parent, entries)"""
    nc, nm = _CAT_LEN, len(META)
    kind = block[0]
    if kind == "single":
        _, route, parent, ni = block
        for ci in range(nc):
            for mi in range(nm):
                yield (route, parent, ((ni, ci, mi),))
    elif kind == "pair":
        _, route, parent, n1, n2 = block
        meta_pairs = [(x, y) for x in META_T for y in META_T] if tier == "thorough" else [(0, 5)]
        for c1 in range(nc):
            for c2 in range(nc):
                for (m1, m2) in meta_pairs:
                    yield (route, parent, ((n1, c1, m1), (n2, c2, m2)))
        for m1 in range(nm):
            for m2 in range(nm):
                yield (route, parent, ((n1, 0, m1), (n2, 6, m2)))
                if route == "add":   # order matters for sequential adds
                    yield (route, parent, ((n2, 6, m2), (n1, 0, m1)))
    else:
        _, route, parent, first = block
        ents = triple_entries()
        for rest in itertools.combinations(ents[first + 1:], 2):
            tri = (ents[first],) + rest
            if len(set(t[0] for t in tri)) == 3:   # same namex twice cannot be expressed as a dict of children
                yield (route, parent, tri)


def triple_entries():
    cat = catalogue(World(0, b"c19-idx"))
    caps3 = [i for i, e in enumerate(cat) if e[0] in CAPS3_LABELS]
    return [(n, c_, m) for n in NAMES3 for c_ in caps3 for m in META3]


def _chunk(chunk, seed, tier):
    res = common.Result()
    ctx = Ctx(seed)
    i = 0
    for block in chunk:
        for (route, parent, entries) in expand(block, tier):
            i += 1
            case = {"seed": seed, "route": route, "parent": parent, "entries": [list(e) for e in entries]}
            bad, outcome = check_case(case, ctx)
            res.count("evaluations")
            res.count("cases:%s" % block[0])
            res.count("outcome:%s:%s" % (route, outcome))
            if _nontrivial(case):
                res.count("nontrivial")
            if len(set(nfc(NAMES[e[0]]) for e in entries)) < len(entries):
                res.count("nfc-collisions")
            for sig, msg in bad:
                res.violation(sig, case, msg + "   [entries: %s]" % ", ".join(
                    "%r -> %s, meta %r" % (NAMES[a][:20], ctx.cat[b_][0], META[m]) for a, b_, m in entries))
            if i == 1 and len(entries) == 2:
                res.sample({"route": route, "entries": [[NAMES[a][:20], ctx.cat[b_][0], META[m]] for a, b_, m in entries], "outcome": outcome})
            if i % 64 == 0:       # keep the per-chunk world small
                ctx.w.mutable.clear()
                ctx.w.chk.clear()
    return res


def gen_blocks(tier):
    nn = len(NAMES)
    blocks = []
    for route, parent in ROUTES2:
        for (n1, n2) in itertools.combinations(range(nn), 2):
            blocks.append(("pair", route, parent, n1, n2))
    if tier == "thorough":
        for route, parent in ROUTES2:
            for first in range(len(triple_entries()) - 2):
                blocks.append(("triple", route, parent, first))
    for route, parent in ROUTES:
        for ni in range(nn):
            blocks.append(("single", route, parent, ni))
    return blocks


def run(tier, seed):
    blocks = gen_blocks(tier)
    res = common.pmap(_chunk, blocks, (seed, tier), chunks=len(blocks))
    outcomes = {k: v for k, v in res.counts.items() if k.startswith("outcome:")}
    nn, nc, nm = len(NAMES), _CAT_LEN, len(META)
    spaces = ["singles: %d names x %d caps x %d metadata x 5 routes = %d" % (nn, nc, nm, res.counts.get("cases:single", 0)),
              "pairs: all %d name pairs x %d^2 ordered cap pairs x %s metadata pair(s), plus all name pairs x 8^2 metadata pairs with caps (CHK, SSK); 3 routes = %d" % (
                  nn * (nn - 1) // 2, nc, "4x4" if tier == "thorough" else "1", res.counts.get("cases:pair", 0))]
    if tier == "thorough":
        spaces.append("triples: all 3-subsets with distinct names of %d names x %d caps x %d metadata; 3 routes = %d" % (
            len(NAMES3), len(CAPS3_LABELS), len(META3), res.counts.get("cases:triple", 0)))
    cov = {
        "evaluations": res.counts.get("evaluations", 0),
        "distinct_nontrivial": res.counts.get("nontrivial", 0),
        "exhaustive": True,
        "nfc_collision_cases": res.counts.get("nfc-collisions", 0),
        "distinct_outcomes": len(outcomes),
        "rule": "every child set in: " + "; ".join(spaces) + ". Each case = real pack + real unpack in a fresh client (write-cap and read-cap view). non-trivial = two or more children, or a name changed by NFC, or a cap beyond plain CHK/LIT. Outcomes: %s" % (sorted(outcomes.items()),),
    }
    return res, cov


MANIFEST = {
    "engine": "E",
    "technique": "exhaustive small-scope enumeration of child sets over catalogues (names x every cap kind x JSON metadata shapes) through the real pack/unpack code on memory-backed directories",
    "text": "Every child set of size <= 2 (thorough: <= 3 on a reduced catalogue) drawn from 14 Unicode names (NFC/NFD pairs, combining sequences, astral, empty, netstring look-alikes, long), every capability kind of uri.py plus unknown-cap shapes, and 8 JSON metadata shapes is written with the real DirectoryNode/NodeMaker (create, incremental set_node, immutable directory) and read back in a fresh client through the write-cap and the read-cap; names, cap strings and metadata must come back equal, and immutable directories must refuse exactly the mutable / write-capable / unknown-rw children. Alleged-prefixed unknown caps given alone in the write slot are in the catalogue.",
    "note": "Small scope only (<= 3 entries, catalogue values): entries are packed independently so larger directories add no new interaction, but this is an argument, not a proof. The mutable-file layer is replaced by a dict. Simulation caps x-tahoe-future-test-* and verify-caps of mutable objects inside immutable directories are counted, not judged.",
}
