"""C47  A successful mutable publish is recoverable  (Engine G, model checking).

Operations: initial creation and overwrite of an existing file, SDMF and MDMF,
(k,N) in {(1,1),(2,3),(3,5)}, S servers (S in 1..N+1).  Every schedule with <= d deviations and
<= f injected faults (error before the call, error after the write took effect, connection loss)
on ANY survey (slot_readv) or write (slot_testv_and_readv_and_writev) call.
Oracle from ground truth (share files parsed by an independent parser + the scheduler's log of
which write calls were answered successfully): success  =>  the new version (seqnum, root hash) is
held on disk by >= k distinct share numbers whose writes were acknowledged, and a fresh client
reads back exactly the new contents; no acknowledged write replaced a share that already existed on a server whose
survey answer never reached the publisher (such a share is an unexpected version: the publisher cannot know what it
overwrote).  A publish that could place fewer than k shares must errback.
"""
from .. import boot, common, grid, lib_imm, lib_mut
from ..lib_mut import pattern
from allmydata.mutable.publish import MutableData

LEVEL = "model_checking"
ASSUMPTIONS = [
    "small files (30 bytes, MDMF segment size 12); encodings (1,1), (2,3), (3,5); S <= N+1 servers",
    "calls on one connection are FIFO; faults are placed by the explorer within the bound f",
]
FAULTS = ["error", "error-after", "disconnect"]


def execute(case, prefix, seed):
    fmt, k, n, S, op = case["fmt"], case["k"], case["n"], case["S"], case["op"]
    ch = grid.Chooser(prefix)
    g = grid.Grid(S, nclients=2, chooser=ch, fault_kinds=tuple(case.get("fault_kinds", ())), client_kw=dict(k=k, n=n, happy=1))
    g.sched.batch = bool(case.get("batch"))     # turn granularity, see grid.Sched.batch
    if case.get("cpu"):
        g.sched.cpu_events()     # thread-pool work completes as a scheduled event, see grid.Sched.cpu_events
    viol, obs = [], {}
    try:
        c = g.clients[0]
        old = pattern(1, 30)
        new = pattern(2, 31)
        acked = set()
        surveyed = set()       # servers from which a survey (slot_readv) answer reached the publisher
        blind = []             # acknowledged writes over a share that existed on a server never surveyed successfully
        pre = set()

        def observer(kind, ev, outcome):
            if ev.meth == "slot_readv" and kind == "deliver" and outcome and outcome[0] == "ok":
                surveyed.add(ev.conn.si)
            if ev.meth == "slot_testv_and_readv_and_writev" and kind == "deliver" and outcome and outcome[0] == "ok" and outcome[1][0]:
                for sh in ev.args[2]:
                    acked.add((ev.conn.si, sh))
                    if (ev.conn.si, sh) in pre and ev.conn.si not in surveyed:
                        blind.append((ev.conn.si, sh))
        if op == "create":
            g.sched.observers.append(observer)
            b = lib_mut.create(g, fmt, new, explore=True)
            node = b[0][1] if b and b[0][0] == "ok" else None
        else:
            b0 = lib_mut.create(g, fmt, old)
            node = b0[0][1]
            g.quiesce()
            pre.update(lib_mut.mutable_shares(g, node.get_storage_index()))
            g.sched.observers.append(observer)
            b = g.wait(node.overwrite(MutableData(new)), explore=True)
        g.quiesce()
        if not b:
            viol.append(("publish-hangs", "%s never completed; log tail %r" % (op, g.sched.log[-5:])))
            return ch.trace, viol, obs
        if b[0][0] == "ok":
            obs["outcome"] = "ok"
            si = node.get_storage_index()
            shares = lib_mut.mutable_shares(g, si)
            vs = lib_mut.versions(shares)
            newest = max(vs, key=lambda v: v[0]) if vs else (None, None)
            holders = set(sh for (sv, sh), p in shares.items() if (p["seqnum"], p["root_hash"]) == newest and (sv, sh) in acked)
            obs["acked_shnums"] = len(holders)
            if len(holders) < k:
                viol.append(("success-with-fewer-than-k-acknowledged-shares", "%s reported success but only share numbers %r of the newest version (seq %r) are on disk with an acknowledged write; k=%d; acked=%r" % (op, sorted(holders), newest[0], k, sorted(acked))))
            if blind:
                # the statement's "no unexpected version was encountered": a share this publisher was never told about
                # (the survey of its server failed) was replaced and the publish still reports success - the
                # test-and-set discipline did not see what it overwrote
                viol.append(("success-after-overwriting-unsurveyed-share", "%s reported success although it overwrote share(s) %r (server, shnum) that existed before and whose server never answered the survey" % (op, sorted(set(blind)))))
            # a fresh client must be able to read the new contents
            c2 = g.clients[1]
            n2 = c2.create_node_from_uri(node.get_uri())
            b2 = lib_mut.download(g, n2)
            if not b2 or b2[0][0] != "ok":
                viol.append(("success-but-unrecoverable", "%s reported success, a fresh client cannot read the file: %s" % (op, b2 and lib_imm.failure_name(b2[0][1]))))
            elif b2[0][1] != new:
                viol.append(("success-but-other-contents", "%s reported success, a fresh client reads %d bytes that are not the published contents" % (op, len(b2[0][1]))))
        else:
            name = lib_imm.failure_name(b[0][1])
            obs["outcome"] = "err:" + name
            if not any(kd.startswith("fault") for (kd, l, o) in g.sched.log):
                viol.append(("publish-failed-without-faults:" + name, "%s on %d honest servers failed: %s" % (op, S, b[0][1].getErrorMessage()[:200])))
        obs["events"] = len(g.sched.log)
        for e in boot.R.take_errors():
            viol.append(("exception-in-timer:" + type(e.value).__name__, e.getTraceback()[-400:]))
        boot.take_logged()
    finally:
        g.close()
    return ch.trace, viol, obs


def chunk(cases, seed, d_bound, f_bound, max_exec):
    res = common.Result()
    for case in cases:
        gate = {}

        def ex(prefix):
            trace, viol, obs = execute(case, prefix, seed)
            return trace, (viol, obs)

        def on_exec(prefix, trace, info):
            viol, obs = info
            res.count("executions")
            res.count("transitions", obs.get("events", 0))
            res.count("outcome:" + obs.get("outcome", "?"))
            res.distinct.add((obs.get("outcome"), obs.get("acked_shnums")))
            for sig, msg in viol:
                res.violation(sig, {"case": case, "prefix": prefix}, msg + " | case=%r schedule=%r" % (case, prefix))
            if any(prefix) and not gate:
                gate["x"] = 1
                t2, v2, o2 = execute(case, prefix, seed)
                if o2 != obs:
                    raise grid.HarnessError("nondeterministic replay %r %r: %r vs %r" % (case, prefix, obs, o2))
                res.sample({"case": case, "schedule": prefix, "outcome": obs.get("outcome"), "acked_shnums": obs.get("acked_shnums")})
        n, capped = grid.explore_subtree(ex, [], d_bound, f_bound, on_exec, max_exec=max_exec)
        res.count("trees")
        if capped:
            res.count("capped_trees")
    return res


def cases_for(tier):
    out = []
    for fmt in ("SDMF", "MDMF"):
        for (k, n) in ((1, 1), (2, 3), (3, 5)):
            Ss = sorted(set([1, n, n + 1])) if tier == "quick" else list(range(1, n + 2))
            for S in Ss:
                if S * 10 < k:
                    continue
                for op in ("create", "overwrite"):
                    out.append({"fmt": fmt, "k": k, "n": n, "S": S, "op": op})
    return out


def replay(case):
    trace, viol, obs = execute(case["case"], case["prefix"], boot.SEED)
    return viol


def run(tier, seed):
    cases = cases_for(tier)
    res = common.Result()
    plan = [(cases, 1, 0), ([c for c in cases if c["n"] <= 3], 0, 2), ([c for c in cases if c["n"] == 5 and c["S"] == 5], 0, 1)] if tier == "quick" else \
           [(cases, 2, 0), ([c for c in cases if c["n"] <= 3], 1, 2), ([c for c in cases if c["n"] == 5], 0, 2)]
    bt = lambda cs: [dict(c, batch=True) for c in cs]     # several answers per reactor turn (grid.Sched.batch)
    plan += [(bt(cases), 0, 0), (bt([c for c in cases if c["n"] <= 3]), 0, 1)] if tier == "quick" else [(bt(cases), 1, 0), (bt([c for c in cases if c["n"] <= 3]), 0, 2)]
    desc = []
    for sel, d, f in plan:
        sel = [dict(c, fault_kinds=FAULTS if f else []) for c in sel]
        res.merge(common.pmap(chunk, sel, (seed, d, f, 20000), chunks=len(sel)))
        desc.append("%d cases at d<=%d,f<=%d%s" % (len(sel), d, f, " (several answers per reactor turn)" if sel and sel[0].get("batch") else ""))
    cov = {
        "states": res.counts.get("executions", 0),
        "transitions": res.counts.get("transitions", 0),
        "traces_validated_against_impl": res.counts.get("executions", 0),
        "capped_trees": res.counts.get("capped_trees", 0),
        "distinct_outcomes": len(res.distinct),
        "outcomes": {k[8:]: v for k, v in res.counts.items() if k.startswith("outcome:")},
        "rule": "; ".join(desc) + "; d = schedule deviations, f = injected faults %r on any survey/write call" % (FAULTS,),
    }
    return res, cov


MANIFEST = {
    "engine": "G",
    "technique": "stateless model checking of the real mutable Publish: all delivery orders and all placements of injected faults (error / error-after-effect / disconnect) within bounds; success judged against parsed share files and the log of acknowledged writes",
    "text": "Creation and overwrite of SDMF/MDMF files on 1..N+1 real storage servers are executed under every schedule and fault placement within the bounds; a reported success must be backed by >= k acknowledged shares of the new version on disk and by a fresh client reading the new contents. A success must not follow an acknowledged write over a pre-existing share on a server whose survey never answered.",
    "note": "Bounds (d, f) in evidence; small files; independent share parser in vt/lib_mut.py.",
}
