"""C33  Grid-manager certificates grant permission only when valid  (Engine E, exhaustive catalogue).

Space (every element is evaluated on the real code, nothing is sampled):
  configured keys   every ORDERED selection of distinct keys from {GM1, GM2}: (), (1), (2), (1,2), (2,1)
  certificates      every ORDERED selection of <= 3 (thorough: <= 4) distinct certificates from a
                    closed catalogue of 15 (see CATALOGUE): valid under GM1 / GM2, signed by an
                    unconfigured GM3, self-signed by the storage server, body tampered after signing
                    (each of the 3 JSON fields, each in the direction an attacker wants), signature byte
                    flipped, issued to another server, expired, expiring exactly at T (written in UTC
                    and in a +05:30 zone), expiring at T+1s, correctly signed with version != 1
  evaluation time   T-1s, T, T+1s (thorough adds T-1d-1s, T-1us, T+1us, T+2s, T+10y) - each on a
                    fresh verifier AND on one shared verifier evaluated in several time orders
  path              "direct": allmydata.grid_manager.create_grid_manager_verifier(keys, certs, pubkey, now_fn)
                    "native"/"http": keys parsed from a tahoe.cfg [grid_managers] section by
                    StorageClientConfig.from_node_config, certificates carried in an announcement,
                    StorageFarmBroker._make_storage_server(...) -> NativeStorageServer /
                    HTTPNativeStorageServer .upload_permitted()   (unordered cert selections; adds a
                    certificate whose signature is not base32 at all)
Valid certificates are produced by the real _GridManager.sign().

Oracle (written from the statement, integer microseconds, no datetime arithmetic shared with
the code):  no keys => True;  else  exists cert: signature made by a configured key over the
exact bytes  and  subject == this server  and  expires > now.  A correctly signed certificate
whose version field is not 1 is outside the statement: both answers accepted and counted.
"""
import contextlib
import io
import gc
import itertools
import json
from datetime import datetime, timedelta, timezone

import allmydata.grid_manager as gm
from allmydata.grid_manager import SignedCertificate, _GridManager, create_grid_manager_verifier
from allmydata.util import base32
from allmydata.storage_client import StorageFarmBroker, StorageClientConfig
from allmydata.node import config_from_string
from allmydata.client import _valid_config
from .. import common
from ..lib_gridkeys import key, flip_byte, cache_plugin_scan

LEVEL = "exploration"
ASSUMPTIONS = [
    "closed catalogue of 15 certificate kinds, selections of <= 3 (thorough <= 4) certificates, <= 2 configured keys; silent about larger mixes and other malformations",
    "'has not expired at the current time' is read as expires > now (a certificate is expired AT its expiry instant), as in DESIGN.md and docs/managed-grid.rst ('expiry timestamp')",
    "storage_client.py builds its verifier without now_fn; the check rebinds the module global allmydata.grid_manager.current_datetime_with_zone to the virtual clock",
    "a correctly signed, unexpired, right-subject certificate with version != 1 may be honoured or not (statement silent)",
]

EPOCH = datetime(1970, 1, 1, tzinfo=timezone.utc)
US = 1000000
DAY = 86400 * US


def t_us(seed):
    return int((datetime(2031, 3, 5, 12, 0, 0, tzinfo=timezone.utc) - EPOCH).total_seconds()) * US + (seed % 1000) * 3600 * US


def us_to_dt(us):
    return EPOCH + timedelta(microseconds=us)


NOW = [0]


def _now():
    return us_to_dt(NOW[0])


CATALOGUE = ["valid-gm1", "valid-gm2", "by-gm3", "self-signed", "tamper-expires", "tamper-pubkey",
             "tamper-version", "sig-flip", "other-server", "expired", "exp-at-T", "exp-at-T-tz",
             "exp-at-T+1s", "version2-signed", "valid-gm1-b"]
MALFORMED = "sig-not-base32"      # only expressible in the announcement (textual) form

_FIX = {}


def _body(pub_s, exp_iso, version=1):
    # same serialisation as _GridManager.sign
    return json.dumps({"expires": exp_iso, "public_key": pub_s.decode("ascii"), "version": version},
                      separators=(",", ":"), sort_keys=True).encode("utf-8")


def fixtures(seed):
    """name -> (SignedCertificate, meta); meta = dict(signer, subject, exp, intact, version)"""
    if seed in _FIX:
        return _FIX[seed]
    T = t_us(seed)
    S, S2 = key(seed, "server-S"), key(seed, "server-S2")
    G = {n: key(seed, n) for n in ("gm1", "gm2", "gm3")}
    saved = gm.current_datetime_with_zone
    gm.current_datetime_with_zone = _now
    out = {}

    def real_sign(gmk, subject, exp):
        g = _GridManager(gmk.priv_s, {})
        g.add_storage_server("srv", subject.vk)
        NOW[0] = exp - DAY
        c = g.sign("srv", timedelta(days=1))
        want = _body(subject.pub_s, us_to_dt(exp).isoformat())
        if c.certificate != want:
            raise RuntimeError("harness: _GridManager.sign produced %r, expected %r" % (c.certificate, want))
        return c

    def meta(signer, subject, exp, intact=True, version=1):
        return {"signer": signer, "subject": subject, "exp": exp, "intact": intact, "version": version}

    out["valid-gm1"] = (real_sign(G["gm1"], S, T + 365 * DAY), meta("gm1", "S", T + 365 * DAY))
    out["valid-gm1-b"] = (real_sign(G["gm1"], S, T + 364 * DAY), meta("gm1", "S", T + 364 * DAY))
    out["valid-gm2"] = (real_sign(G["gm2"], S, T + 365 * DAY), meta("gm2", "S", T + 365 * DAY))
    out["by-gm3"] = (real_sign(G["gm3"], S, T + 365 * DAY), meta("gm3", "S", T + 365 * DAY))
    out["other-server"] = (real_sign(G["gm1"], S2, T + 365 * DAY), meta("gm1", "S2", T + 365 * DAY))
    out["expired"] = (real_sign(G["gm1"], S, T - DAY), meta("gm1", "S", T - DAY))
    out["exp-at-T"] = (real_sign(G["gm1"], S, T), meta("gm1", "S", T))
    out["exp-at-T+1s"] = (real_sign(G["gm1"], S, T + US), meta("gm1", "S", T + US))
    # the same instant T written in another zone, signed by gm2
    tz = timezone(timedelta(hours=5, minutes=30))
    b = _body(S.pub_s, us_to_dt(T).astimezone(tz).isoformat())
    out["exp-at-T-tz"] = (SignedCertificate(b, G["gm2"].sign(b)), meta("gm2", "S", T))
    # the server signs its own certificate
    b = _body(S.pub_s, us_to_dt(T + 365 * DAY).isoformat())
    out["self-signed"] = (SignedCertificate(b, S.sign(b)), meta("server-S", "S", T + 365 * DAY))
    # tampering after signing (signature of the original body kept)
    exp_c = out["expired"][0]
    out["tamper-expires"] = (SignedCertificate(_body(S.pub_s, us_to_dt(T + 365 * DAY).isoformat()), exp_c.signature),
                             meta(None, "S", T + 365 * DAY, intact=False))
    oth = out["other-server"][0]
    out["tamper-pubkey"] = (SignedCertificate(_body(S.pub_s, us_to_dt(T + 365 * DAY).isoformat()), oth.signature),
                            meta(None, "S", T + 365 * DAY, intact=False))
    vb = out["valid-gm1-b"][0]
    out["tamper-version"] = (SignedCertificate(_body(S.pub_s, us_to_dt(T + 364 * DAY).isoformat(), version=2), vb.signature),
                             meta(None, "S", T + 364 * DAY, intact=False, version=2))
    v1 = out["valid-gm1"][0]
    out["sig-flip"] = (SignedCertificate(v1.certificate, flip_byte(v1.signature, 7 + seed)), meta(None, "S", T + 365 * DAY, intact=False))
    b = _body(S.pub_s, us_to_dt(T + 365 * DAY).isoformat(), version=2)
    out["version2-signed"] = (SignedCertificate(b, G["gm1"].sign(b)), meta("gm1", "S", T + 365 * DAY, version=2))
    gm.current_datetime_with_zone = saved
    assert set(out) == set(CATALOGUE)
    _FIX[seed] = out
    return out


def reference(keys, metas, now):
    """set of acceptable answers"""
    if not keys:
        return {True}
    ok = [m for m in metas if m is not None and m["intact"] and m["signer"] in keys and m["subject"] == "S" and m["exp"] > now]
    if any(m["version"] == 1 for m in ok):
        return {True}
    if ok:
        return {True, False}
    return {False}


def times_and_orders(tier):
    if tier == "thorough":
        offs = [-DAY - US, -US, -1, 0, 1, US, 2 * US, 3650 * DAY]
        n = len(offs)
        orders = [list(range(n)), list(range(n - 1, -1, -1)), [3, 0, 7, 2, 5, 1, 6, 4], [4, 6, 1, 5, 2, 7, 0, 3]]
    else:
        offs = [-US, 0, US]
        orders = [list(p) for p in itertools.permutations(range(3))]
    return offs, orders


# ------------------------------------------------------------------ the two ways into the real code
def make_predicate(path, seed, keylabels, certnames, badlog):
    fx = fixtures(seed)
    S = key(seed, "server-S")
    if path == "direct":
        keys = [key(seed, k).vk for k in keylabels]
        certs = [fx[c][0] for c in certnames]
        return create_grid_manager_verifier(keys, certs, S.pub_s, now_fn=_now,
                                            bad_cert=lambda k, c: badlog.append(1))
    gm.current_datetime_with_zone = _now
    cache_plugin_scan()
    cfg_s = "[client]\n[grid_managers]\n" + "".join(
        "%s = %s\n" % (k, key(seed, k).pub_s.decode("ascii")) for k in keylabels)
    cfg = config_from_string("/dev/shm/vt-c33-nonexistent", "client.port", cfg_s, _valid_config=_valid_config())
    scc = StorageClientConfig.from_node_config(cfg)
    broker = StorageFarmBroker(True, None, cfg, scc)
    ann_certs = []
    for c in certnames:
        if c == MALFORMED:
            ann_certs.append({"certificate": fx["valid-gm1"][0].certificate.decode("utf-8"), "signature": "!!!notbase32"})
        else:
            sc = fx[c][0]
            ann_certs.append({"certificate": sc.certificate.decode("utf-8"), "signature": base32.b2a(sc.signature).decode("ascii")})
    ann = {"anonymous-storage-FURL": "pb://%s@nowhere/fake" % base32.b2a(b"\x07" * 20).decode("ascii"),
           "permutation-seed-base32": base32.b2a(b"seed").decode("ascii"),
           "grid-manager-certificates": ann_certs}
    if path == "http":
        ann["anonymous-storage-NURLs"] = ["pb://%s@127.0.0.1:1/x#v=1" % ("a" * 43)]
    with contextlib.redirect_stdout(io.StringIO()):
        srv = broker._make_storage_server(S.v0, {"ann": ann})
    want_cls = "HTTPNativeStorageServer" if path == "http" else "NativeStorageServer"
    if type(srv).__name__ != want_cls:
        raise RuntimeError("harness: expected %s, got %r" % (want_cls, srv))
    return srv.upload_permitted


def _call(pred, now):
    NOW[0] = now
    return pred()


def evaluate(case, stats=None):
    """case = {seed, tier, path, keys:[labels], certs:[names]} -> [(sig, msg)]"""
    seed, path = case["seed"], case["path"]
    keys, certs = list(case["keys"]), list(case["certs"])
    fx = fixtures(seed)
    T = t_us(seed)
    offs, orders = times_and_orders(case["tier"])
    metas = [fx[c][1] if c != MALFORMED else None for c in certs]
    out = []
    n_eval = 0
    answers = set()

    def where(now):
        return "path=%s keys=%s certs=%s now=T%+dus" % (path, keys, certs, now - T)

    def single_culprits(now):
        bad = []
        for c in certs:
            if c == MALFORMED:
                continue
            if reference(keys, [fx[c][1]], now) == {False}:
                try:
                    if _call(make_predicate(path, seed, keys, [c], []), now) is True:
                        bad.append(c)
                except Exception:  # noqa
                    pass
        return bad

    def judge(got, now, how):
        want = reference(keys, metas, now)
        answers.add((got, tuple(sorted(want))))
        if got in want:
            return
        if got is True:
            cul = single_culprits(now)
            sig = "permitted-wrongly:" + (cul[0] if cul else "combination")
            out.append((sig, "%s verifier answered True (%s) but no certificate is signed by a configured key, for this server and unexpired; culprit(s) alone: %s"
                        % (where(now), how, cul or "none (only the combination)")))
        elif got is False:
            if not keys:
                sig = "denied-with-no-keys"
            else:
                good = [c for c, m in zip(certs, metas) if m and reference(keys, [m], now) == {True}]
                sig = "denied-despite-valid:" + good[0]
            out.append((sig, "%s verifier answered False (%s) but %s" % (where(now), how, "no grid-manager key is configured" if not keys else "a valid certificate is present")))
        else:
            out.append(("non-boolean-answer", "%s verifier answered %r (%s)" % (where(now), got, how)))

    # (a) a fresh predicate per evaluation time
    for off in offs:
        now = T + off
        badlog = []
        try:
            pred = make_predicate(path, seed, keys, certs, badlog)
            got = _call(pred, now)
            n_eval += 1
        except RuntimeError:
            raise
        except Exception as e:  # noqa
            want = reference(keys, metas, now)
            answers.add(("exc:" + type(e).__name__, tuple(sorted(want))))
            n_eval += 1
            if MALFORMED in certs:
                if want == {True}:
                    out.append(("malformed-cert-blocks-server:" + type(e).__name__,
                                "%s: StorageFarmBroker._make_storage_server raised %r; the statement makes this server permitted (%s) but it cannot even be constructed"
                                % (where(now), e, "no grid-manager keys configured" if not keys else "it also holds a valid certificate")))
                    break
                continue
            out.append(("exception:" + type(e).__name__, "%s raised %r" % (where(now), e)))
            continue
        judge(got, now, "fresh verifier")
        if out:
            break
    # (b) one shared predicate asked at all times in several orders: the answer may depend on `now` only
    if not out and MALFORMED not in certs:
        try:
            pred = make_predicate(path, seed, keys, certs, [])
            for order in orders:
                for i in order:
                    got = _call(pred, T + offs[i])
                    n_eval += 1
                    judge(got, T + offs[i], "shared verifier, time order %s" % ([offs[j] for j in order],))
                    if out:
                        out[-1] = ("order-dependent:" + out[-1][0], out[-1][1])
                        break
                if out:
                    break
        except RuntimeError:
            raise
        except Exception as e:  # noqa
            out.append(("exception:" + type(e).__name__, "%s shared verifier raised %r" % (where(T), e)))
    if stats is not None:
        stats["evals"] = n_eval
        stats["answers"] = answers
    return out


def _chunk(chunk, seed, tier):
    res = common.Result()
    T = t_us(seed)
    offs, _ = times_and_orders(tier)
    fx = fixtures(seed)
    for (path, keys, certs) in chunk:
        case = {"seed": seed, "tier": tier, "path": path, "keys": list(keys), "certs": list(certs)}
        st = {}
        bad = evaluate(case, st)
        res.count("evaluations", st["evals"])
        res.count("cases")
        res.count("cases:" + path)
        for a in st["answers"]:
            res.distinct.add((path,) + a)
        # non-trivial: keys configured, >= 1 certificate, and the acceptable answer differs between two of the times
        metas = [fx[c][1] if c != MALFORMED else None for c in certs]
        refs = set(tuple(sorted(reference(keys, metas, T + o))) for o in offs)
        if keys and certs:
            res.count("nontrivial")
            if len(refs) > 1:
                res.count("answer_changes_with_time")
        for sig, msg in bad:
            res.violation(sig, case, msg)
        if keys == ("gm2", "gm1") and certs in (("expired", "exp-at-T+1s", "other-server"), ("exp-at-T-tz",)):
            res.sample({"path": path, "keys": keys, "certs": certs,
                        "acceptable_answer_per_time": {("T%+dus" % o): sorted(reference(keys, metas, T + o)) for o in offs}})
    return res


def replay(case):
    return evaluate(case)


def run(tier, seed):
    gc.collect()
    gc.freeze()     # keep forked workers from copying the whole (read-only) heap on their first collection
    maxn = 4 if tier == "thorough" else 3
    keysets = [(), ("gm1",), ("gm2",), ("gm1", "gm2"), ("gm2", "gm1")]
    items = []
    for n in range(maxn + 1):                       # smallest selections first => minimal counterexamples
        for certs in itertools.permutations(CATALOGUE, n):
            for ks in keysets:
                items.append(("direct", ks, certs))
    cat2 = CATALOGUE + [MALFORMED]
    for n in range(4):                              # storage_client paths: unordered selections (<= 3 in both tiers)
        for certs in itertools.combinations(cat2, n):
            for ks in keysets:
                for path in ("native", "http"):
                    items.append((path, ks, certs))
                    if MALFORMED in certs and len(certs) > 1:
                        # the unparseable entry FIRST: what follows it must still be looked at
                        items.append((path, ks, (MALFORMED,) + tuple(c for c in certs if c != MALFORMED)))
    fixtures(seed)
    res = common.pmap(_chunk, items, (seed, tier))
    offs, orders = times_and_orders(tier)
    cov = {
        "evaluations": res.counts.get("evaluations", 0),
        "distinct_nontrivial": res.counts.get("nontrivial", 0),
        "exhaustive": True,
        "cases": res.counts.get("cases", 0),
        "cases_direct": res.counts.get("cases:direct", 0),
        "cases_native": res.counts.get("cases:native", 0),
        "cases_http": res.counts.get("cases:http", 0),
        "cases_where_answer_changes_with_time": res.counts.get("answer_changes_with_time", 0),
        "distinct_outcomes": len(res.distinct),
        "outcomes": sorted("%s: got %s, acceptable %s" % (p, g, list(w)) for (p, g, w) in res.distinct),
        "rule": "every ordered selection of <= %d certificates from the %d-kind catalogue x 5 ordered key lists over {GM1,GM2} on create_grid_manager_verifier, "
                "and every unordered selection of <= 3 from the catalogue + a non-base32 signature x 5 key lists through StorageFarmBroker._make_storage_server for a "
                "NativeStorageServer and an HTTPNativeStorageServer; each evaluated at %d times around the expiry instant T (offsets in us: %s) on fresh verifiers and on a "
                "shared verifier in %d time orders; non-trivial = at least one key configured and at least one certificate present"
                % (maxn, len(CATALOGUE), len(offs), offs, len(orders)),
    }
    return res, cov


MANIFEST = {
    "engine": "E",
    "technique": "exhaustive enumeration of key lists x ordered certificate selections x evaluation times against a reference predicate",
    "text": "Every ordered selection of up to 3 (thorough 4) certificates from a closed catalogue of 15 kinds (valid, foreign/self signer, each field tampered, flipped signature, other server, expired, expiring at/after the evaluation instant in two time zones, version 2), under every ordered list of configured grid-manager keys, is given to the real create_grid_manager_verifier and, via a tahoe.cfg [grid_managers] section and an announcement, to the real StorageFarmBroker/NativeStorageServer/HTTPNativeStorageServer.upload_permitted; answers at T-1s, T, T+1s (more in thorough) are compared with a predicate written from the statement in integer microseconds.",
    "note": "Trusted: ed25519 primitives (cryptography), the reference predicate. Expiry is read as expires > now. Version != 1 certificates are counted, not judged. The storage_client path has no clock parameter: the module-level current_datetime_with_zone is rebound.",
}
