"""Process set-up: own every source of nondeterminism BEFORE allmydata is imported.

Import this module first.  It
  * makes /repo/src importable and appends the RangeMap shim last on sys.path,
  * installs a virtual reactor (MemoryReactorClock) as twisted's global reactor,
  * replaces os.urandom by a seeded SHA-256 counter stream,
  * disables tahoe's CPU thread pool,
  * offers set_time()/virtual time rebinding for the modules that bind time at import.
"""
import hashlib
import os
import sys
import time as _real_time_mod

REPO_SRC = os.environ.get("VERIF_REPO_SRC", "/repo/src")
HERE = os.path.dirname(os.path.dirname(os.path.abspath(__file__)))
if REPO_SRC not in sys.path:
    sys.path.insert(0, REPO_SRC)
_shim = os.path.join(HERE, "shims")
if _shim not in sys.path:
    sys.path.append(_shim)  # last: a real collections_extended wins

sys.dont_write_bytecode = True
SEED = int(os.environ.get("VERIF_SEED", "0") or 0)

# ---------------------------------------------------------------- deterministic urandom
_real_urandom = os.urandom


class _URandom(object):
    def __init__(self):
        self.reset(SEED)

    def reset(self, seed, label=b""):
        self.key = hashlib.sha256(b"vt-urandom:%d:" % seed + label).digest()
        self.ctr = 0
        self.buf = b""

    def __call__(self, n):
        while len(self.buf) < n:
            self.buf += hashlib.sha256(self.key + self.ctr.to_bytes(8, "big")).digest()
            self.ctr += 1
        out, self.buf = self.buf[:n], self.buf[n:]
        return out


urandom = _URandom()
os.urandom = urandom

# ---------------------------------------------------------------- virtual reactor
from twisted.internet.testing import MemoryReactorClock  # noqa: E402
from twisted.internet import main as _main  # noqa: E402


class VReactor(MemoryReactorClock):
    """MemoryReactorClock + the few extra methods tahoe/foolscap/treq touch."""

    errors = None

    def advance(self, amount):
        """like task.Clock.advance, but an exception raised by a timer callback is caught
        and recorded (the real reactor logs it and carries on) instead of unwinding the harness"""
        if self.errors is None:
            self.errors = []
        self.rightNow += amount
        self._sortCalls()
        # 10 us of tolerance: at the virtual epoch (1e9 s) a double resolves 1.2e-7 s, so whether a
        # timer set "n ticks ahead" is due after n ticks of 1 ms would otherwise depend on rounding
        while self.calls and self.calls[0].getTime() <= self.seconds() + 1e-5:
            call = self.calls.pop(0)
            call.called = 1
            try:
                call.func(*call.args, **call.kw)
            except Exception:
                from twisted.python.failure import Failure
                self.errors.append(Failure())
            self._sortCalls()

    def _advance_to(self, t):
        """advance to the absolute time t exactly (rightNow += (t - rightNow) can land one ulp short
        of t, and then the timer due at t does not run)"""
        if t > self.rightNow:
            self.rightNow = t
        self.advance(0)

    def take_errors(self):
        e, self.errors = (self.errors or []), []
        return e

    def callFromThread(self, f, *a, **kw):
        self.callLater(0, f, *a, **kw)

    def callInThread(self, f, *a, **kw):
        f(*a, **kw)

    def getThreadPool(self):
        raise RuntimeError("VReactor has no thread pool")

    def suggestThreadPoolSize(self, n):
        pass

    def pump_until_idle(self, limit=200000):
        """Run every timer that is due *now* (eventual sends, Cooperator ticks of
        1e-8 s are treated as due-now by advancing to them when they are < 0.5 ms away)."""
        n = 0
        while True:
            calls = self.getDelayedCalls()
            if not calls:
                return n
            nxt = min(c.getTime() for c in calls)
            if nxt - self.seconds() > 5e-4:      # strictly below the 1 ms scheduler tick (float noise)
                return n
            self._advance_to(nxt)
            n += 1
            if n > limit:
                raise RuntimeError("pump_until_idle: livelock (>%d zero-delay timers)" % limit)

    def next_timer_delay(self):
        calls = self.getDelayedCalls()
        if not calls:
            return None
        return min(c.getTime() for c in calls) - self.seconds()

    def fire_next_timer(self):
        d = self.next_timer_delay()
        if d is None:
            return False
        self._advance_to(min(c.getTime() for c in self.getDelayedCalls()))
        return True

    def run_all(self, horizon=10 ** 9, limit=10 ** 6):
        """pump + fire timers until nothing is left (or horizon seconds passed)."""
        end = self.seconds() + horizon
        n = 0
        while True:
            self.pump_until_idle()
            d = self.next_timer_delay()
            if d is None or self.seconds() + d > end:
                return
            self.advance(d)
            n += 1
            if n > limit:
                raise RuntimeError("run_all: too many timers")


if "twisted.internet.reactor" in sys.modules:
    R = sys.modules["twisted.internet.reactor"]
    if not isinstance(R, MemoryReactorClock):
        raise RuntimeError("vt.boot imported after a real reactor was installed")
else:
    R = VReactor()
    R.advance(1000000000.0)  # virtual epoch: 2001-09-09
    _main.installReactor(R)



# ---------------------------------------------------------------- virtual wall clock
# time.time is replaced process-wide *before* allmydata is imported, so modules that bind
# `now = time.time` / `from time import time` at import bind the virtual clock as well.
real_time = _real_time_mod.time
perf = _real_time_mod.perf_counter


class VTime(object):
    def __init__(self):
        self.offset = 0.0
        self.hook = None  # optional callable() -> float, used as a choice point

    def time(self):
        if self.hook is not None:
            return self.hook()
        return R.seconds() + self.offset


VT = VTime()
_real_time_mod.time = VT.time

import allmydata.util.cputhreadpool as _ctp  # noqa: E402
_ctp._DISABLED = True


# ---------------------------------------------------------------- twisted log errors
# foolscap's eventual queue and Deferred GC report exceptions through twisted.python.log;
# collect them (checks decide what they mean) instead of letting them go to stderr.
from twisted.python import log as _twlog  # noqa: E402


LOGGED = []   # (why, failure) of every error reported through twisted.python.log


def _log_observer(event):
    if event.get("isError"):
        f = event.get("failure")
        if f is not None and len(LOGGED) < 1000:
            LOGGED.append((event.get("why"), f))


def take_logged(uncaught_only=True):
    """errors logged since the last call.  uncaught_only: only those reported with no
    explanation (log.err() in a bare except, as foolscap's eventual queue does for an
    exception escaping a callback) - deliberate `addErrback(log.err, "why")` reports and
    'Unhandled error in Deferred' GC reports are dropped."""
    out = [(w, f) for (w, f) in LOGGED if not uncaught_only or not w]
    del LOGGED[:]
    return out


_twlog.addObserver(_log_observer)
try:
    # end twisted's "logging has not begun yet" mode, which prints every error to stderr
    from twisted.logger import globalLogBeginner as _glb
    _glb.beginLoggingTo([], discardBuffer=True, redirectStandardIO=False)
except Exception:  # noqa
    pass
