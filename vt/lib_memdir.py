"""Memory-backed directory world for C18-C21.

REAL code:  allmydata.dirnode.DirectoryNode (pack/unpack, rw-cap superencryption, Adder/Deleter/
MetadataSetter, move_child_to, deep_traverse, ManifestWalker, DeepChecker), allmydata.nodemaker.
NodeMaker (create_from_cap, node cache, create_new_mutable_directory, create_immutable_directory),
allmydata.unknown.UnknownNode, allmydata.uri, LiteralFileNode, DeepStats, and the cap/key accessors
of MutableFileNode / ImmutableFileNode (the Mem* classes SUBCLASS the real ones and replace only the
methods that would talk to storage servers).

FAKE:  where the bytes live.  Mutable-file contents are held in `World.mutable[storage_index]`
(the *plaintext* of the mutable file: what any holder of the read key obtains after the real
mutable-file layer decrypted the share data); CHK contents in `World.chk[cap string]`.  There are no
RSA keys, shares, servers or servermaps.  `modify(modifier)` follows MutableFileVersion._modify_once:
modifier(old, servermap=None, first_time=True); None or unchanged => no write; an exception => errback
and nothing written.  Read-only nodes refuse every write with NotWriteableError.

A `World` is the grid; `world.client()` is one client (a NodeMaker with its own node cache) - use a
second client to model a party that holds only a read-cap.

By default everything completes synchronously except foolscap eventual-sends; with
World(async_io=True) every storage operation (download, modify, overwrite, check, CHK read) fires
in a LATER turn of the virtual reactor, as on a real grid, so Deferred chains really pause.
`fire(d)` pumps the virtual reactor and returns ("ok", value) / ("err", exception).
"""
import hashlib

from zope.interface import implementer
from twisted.internet import defer
from twisted.python.failure import Failure

from . import boot  # noqa: F401  (virtual reactor/time first)
from allmydata import uri
from allmydata.check_results import CheckResults, CheckAndRepairResults
from allmydata.immutable.filenode import ImmutableFileNode
from allmydata.interfaces import IMutableFileNode, IImmutableFileNode, ICheckable, \
    IMutableUploadable, IDisplayableServer, NotEnoughSharesError
from allmydata.mutable.common import NotWriteableError
from allmydata.mutable.filenode import MutableFileNode
from allmydata.mutable.layout import SDMF_VERSION, MDMF_VERSION
from allmydata.mutable.publish import MutableData
from allmydata.nodemaker import NodeMaker
from allmydata.util import hashutil

LIT_THRESHOLD = 55  # allmydata.immutable.upload.Uploader.URI_LIT_SIZE_THRESHOLD
ENCODING = {"k": 3, "n": 10, "happy": 7, "max_segment_size": 128 * 1024}


@implementer(IDisplayableServer)
class _StubServer(object):
    def get_nickname(self):
        return "mem"

    def get_name(self):
        return "mem"

    def get_longname(self):
        return "mem"

    def get_serverid(self):
        return b"\x00" * 20


_SERVER = _StubServer()


def _stub_check_results(cap, si):
    return CheckResults(cap, si, healthy=True, recoverable=True, count_happiness=10,
                        count_shares_needed=3, count_shares_expected=10, count_shares_good=10,
                        count_good_share_hosts=10, count_recoverable_versions=1,
                        count_unrecoverable_versions=0, servers_responding=[_SERVER],
                        sharemap={1: [_SERVER]}, count_wrong_shares=0, list_corrupt_shares=[],
                        count_corrupt_shares=0, list_incompatible_shares=[],
                        count_incompatible_shares=0, summary="", report=[], share_problems=[],
                        servermap=None)


def _read_uploadable(u):
    """bytes of an IMutableUploadable (MutableData) - synchronous."""
    return b"".join(u.read(u.get_size()))


class World(object):
    """The 'grid': contents by storage index / CHK cap, plus an access log."""

    def __init__(self, seed=0, label=b"", async_io=False):
        self.async_io = async_io   # True: every storage operation completes in a LATER reactor turn
        self.mutable = {}    # storage_index -> bytes (plaintext of the mutable file)
        self.chk = {}        # CHK cap string -> bytes
        self.checks = []     # (uri string) for every check()/check_and_repair() on a Mem node
        self.writes = 0
        self.reads = 0
        self._ctr = 0
        self._seed = b"memdir:%d:" % seed + label
        self.convergence = self.rand(32, b"convergence")

    def rand(self, n, tag=b""):
        """deterministic fresh bytes (independent of os.urandom call order)"""
        self._ctr += 1
        out = b""
        i = 0
        while len(out) < n:
            out += hashlib.sha256(self._seed + tag + b":%d:%d" % (self._ctr, i)).digest()
            i += 1
        return out[:n]

    def client(self):
        return MemNodeMaker(self)

    def io(self, f, *a):
        """run storage operation f: synchronously (default), or - like every real grid operation -
        in a later turn of the (virtual) reactor, so that callers' Deferred chains really pause"""
        if not self.async_io:
            return defer.maybeDeferred(f, *a)
        d = defer.Deferred()

        def _run():
            try:
                r = f(*a)
            except Exception:  # noqa
                d.errback(Failure())
            else:
                d.callback(r)
        boot.R.callLater(0, _run)
        return d

    # cap factories that do not need a client ------------------------------------------
    def new_mutable_cap(self, mdmf=False):
        cls = uri.WriteableMDMFFileURI if mdmf else uri.WriteableSSKFileURI
        return cls(self.rand(16, b"wk"), self.rand(32, b"fp"))

    def new_chk_cap(self, size=1000, contents=None):
        if contents is not None:
            return self.store_immutable(contents, force_chk=True)
        return uri.CHKFileURI(self.rand(16, b"chk"), self.rand(32, b"ueb"), 3, 10, size)

    def store_immutable(self, data, force_chk=False):
        """what the uploader does: LIT for small data, else a content-derived CHK cap"""
        if len(data) <= LIT_THRESHOLD and not force_chk:
            return uri.LiteralFileURI(data)
        key = hashutil.tagged_hash(b"memdir-chk-key", self.convergence + data)[:16]
        ueb = hashutil.tagged_hash(b"memdir-chk-ueb", data)
        cap = uri.CHKFileURI(key, ueb, 3, 10, len(data))
        self.chk[cap.to_string()] = data
        return cap


@implementer(IMutableFileNode, ICheckable)
class MemMutableFileNode(MutableFileNode):
    """Real cap/key accessors (init_from_cap, get_writekey, get_readkey, get_uri, get_write_uri,
    get_readonly_uri, is_readonly, get_verify_cap, __eq__/__hash__ ...); storage in World."""

    def __init__(self, world):
        MutableFileNode.__init__(self, None, None, ENCODING, None)
        self._world = world

    # -- creation
    def create_in_memory(self, cap, contents):
        self.init_from_cap(cap)
        if contents is None:
            data = b""
        elif isinstance(contents, bytes):
            data = contents
        elif IMutableUploadable.providedBy(contents):
            data = _read_uploadable(contents)
        else:
            data = _read_uploadable(contents(self))
        self._world.mutable[self._storage_index] = data
        self._world.writes += 1
        return self

    def get_readonly(self):
        if self.is_readonly():
            return self
        return MemMutableFileNode(self._world).init_from_cap(self._uri.get_readonly())

    # -- reading
    def _data(self):
        try:
            return self._world.mutable[self._storage_index]
        except KeyError:
            raise NotEnoughSharesError("no such mutable file in memory world", 0, 3)

    def get_size(self):
        return len(self._world.mutable.get(self._storage_index, b""))

    def get_current_size(self):
        return self.get_size_of_best_version()

    def get_size_of_best_version(self):
        return self._world.io(lambda: len(self._data()))

    def download_best_version(self):
        self._world.reads += 1
        return self._world.io(self._data)

    def get_best_readable_version(self):
        return defer.succeed(self)

    def get_best_mutable_version(self, servermap=None):
        return defer.succeed(self)

    def download_to_data(self, fetch_privkey=False):
        return self.download_best_version()

    def read(self, consumer, offset=0, size=None):
        def _go():
            data = self._data()
            consumer.write(data[offset:] if size is None else data[offset:offset + size])
            return consumer
        return self._world.io(_go)

    def get_servermap(self, mode):
        return defer.succeed(None)

    def get_version(self):
        return self._protocol_version

    def get_sequence_number(self):
        return 0

    # -- writing
    def _refuse(self):
        if self.is_readonly() or self.get_writekey() is None:
            raise NotWriteableError("memory-backed mutable file opened read-only")

    def overwrite(self, new_contents):
        def _go():
            self._refuse()
            self._data()
            self._world.mutable[self._storage_index] = _read_uploadable(new_contents)
            self._world.writes += 1
        return self._world.io(_go)

    def upload(self, new_contents, servermap):
        return self.overwrite(new_contents)

    def update(self, data, offset):
        def _mod(old, servermap, first_time):
            new = old[:offset] + _read_uploadable(data)
            return new + old[len(new):]
        return self.modify(_mod)

    def modify(self, modifier, backoffer=None):
        def _go():
            self._refuse()
            old = self._data()
            new = modifier(old, None, True)
            if not (new is None or isinstance(new, bytes)):
                raise AssertionError("Modifier function must return bytes or None")
            if new is None or new == old:
                return None
            self._world.mutable[self._storage_index] = new
            self._world.writes += 1
            return None
        return self._world.io(_go)

    # -- checking (stub checker)
    def check(self, monitor, verify=False, add_lease=False):
        self._world.checks.append(self.get_uri())
        return self._world.io(_stub_check_results, self._uri, self._storage_index)

    def check_and_repair(self, monitor, verify=False, add_lease=False):
        self._world.checks.append(self.get_uri())
        r = CheckAndRepairResults(self._storage_index)
        r.pre_repair_results = r.post_repair_results = _stub_check_results(self._uri, self._storage_index)
        return self._world.io(lambda: r)

    def repair(self, check_results, force=False, monitor=None):
        return defer.succeed(None)


@implementer(IImmutableFileNode, ICheckable)
class MemCHKFileNode(ImmutableFileNode):
    """Real ImmutableFileNode accessors; read() served from World.chk (bare caps without
    stored contents are fine as long as nobody reads them)."""

    def __init__(self, cap, world):
        ImmutableFileNode.__init__(self, cap, None, None, None, None)
        self._world = world

    def read(self, consumer, offset=0, size=None):
        def _go():
            try:
                data = self._world.chk[self.u.to_string()]
            except KeyError:
                raise NotEnoughSharesError("no such CHK file in memory world", 0, 3)
            self._world.reads += 1
            consumer.write(data[offset:] if size is None else data[offset:offset + size])
            return consumer
        return self._world.io(_go)

    def check(self, monitor, verify=False, add_lease=False):
        self._world.checks.append(self.get_uri())
        return self._world.io(_stub_check_results, self.u, self.u.get_storage_index())

    def check_and_repair(self, monitor, verify=False, add_lease=False):
        self._world.checks.append(self.get_uri())
        r = CheckAndRepairResults(self.u.get_storage_index())
        r.pre_repair_results = r.post_repair_results = _stub_check_results(self.u, self.u.get_storage_index())
        return self._world.io(lambda: r)


class _UploadResults(object):
    def __init__(self, cap):
        self._cap = cap

    def get_uri(self):
        return self._cap.to_string()


class MemUploader(object):
    def __init__(self, world):
        self._world = world

    def upload(self, uploadable, reactor=None):
        out = []
        d = uploadable.get_size()
        d.addCallback(lambda size: uploadable.read(size))
        d.addCallback(lambda chunks: out.append(b"".join(chunks)))
        d.addCallback(lambda ign: _UploadResults(self._world.store_immutable(out[0])))
        return d


class _Secrets(object):
    def __init__(self, world):
        self._world = world

    def get_convergence_secret(self):
        return self._world.convergence


class MemNodeMaker(NodeMaker):
    """The real NodeMaker; only the three constructors that would need a grid are replaced."""

    def __init__(self, world):
        NodeMaker.__init__(self, None, _Secrets(world), None, MemUploader(world), None,
                           ENCODING, SDMF_VERSION, None)
        self.world = world

    def _create_immutable(self, cap):
        return MemCHKFileNode(cap, self.world)

    def _create_mutable(self, cap):
        return MemMutableFileNode(self.world).init_from_cap(cap)

    def create_mutable_file(self, contents=None, version=None, keypair=None):
        if version is None:
            version = self.mutable_file_default
        cap = self.world.new_mutable_cap(mdmf=(version == MDMF_VERSION))
        return defer.maybeDeferred(MemMutableFileNode(self.world).create_in_memory, cap, contents)


# ------------------------------------------------------------------ driving
def fire(d, pump=True):
    """Run the virtual reactor until `d` has fired.  -> ("ok", value) | ("err", exception) |
    ("hang", None)"""
    out = []
    d.addCallbacks(lambda r: out.append(("ok", r)), lambda f: out.append(("err", f.value)))
    if not out and pump:
        boot.R.pump_until_idle()
    if not out:
        return ("hang", None)
    return out[0]


def must(d):
    k, v = fire(d)
    if k != "ok":
        if isinstance(v, BaseException):
            raise v
        raise RuntimeError("deferred did not fire")
    return v


def wait_monitor(monitor):
    """-> ("ok", status) | ("err", exception) for a deep-traversal Monitor"""
    k, v = fire(monitor.when_done())
    if k == "ok" and isinstance(v, Failure):
        return ("err", v.value)
    return (k, v)


def tick(dt=1):
    boot.R.advance(dt)


def mkdir(client, children=None, mdmf=False):
    """new mutable directory node (write-cap) with {name: (node, metadata)} children"""
    return must(client.create_new_mutable_directory(children or {}, version=MDMF_VERSION if mdmf else SDMF_VERSION))


def mkimmdir(client, children=None):
    return must(client.create_immutable_directory(children or {}))


def listing(dirnode):
    """{name: (node, metadata)} via the real list()"""
    return dict(must(dirnode.list()))


def raw_contents(world, dirnode):
    """the packed directory plaintext (what every read-key holder can obtain)"""
    cap = dirnode.get_cap().get_filenode_cap()
    if isinstance(cap, uri.LiteralFileURI):
        return cap.data
    if isinstance(cap, uri.CHKFileURI):
        return world.chk[cap.to_string()]
    return world.mutable[cap.get_storage_index()]


def mkdir_at(client, filecap, children=None):
    """materialise a mutable directory whose backing file has the GIVEN write-cap (so that a
    catalogue can fix the caps first); children = {name: (node, metadata)}; real pack_children."""
    from allmydata.dirnode import pack_children
    n = MemMutableFileNode(client.world).create_in_memory(
        filecap, lambda node: MutableData(pack_children(children or {}, node.get_writekey())))
    return client._create_dirnode(n)


def parse_packed(data):
    """INDEPENDENT parser of the directory serialisation (docs/specifications/dirnodes.rst):
    netstring( netstring(name) netstring(ro_uri) netstring(rwcapdata) netstring(metadata) )*
    -> [(name_utf8, ro_uri, rwcapdata, metadata_bytes)]"""
    def ns(buf, pos):
        colon = buf.index(b":", pos)
        n = int(buf[pos:colon])
        body = buf[colon + 1:colon + 1 + n]
        if len(body) != n or buf[colon + 1 + n:colon + 2 + n] != b",":
            raise ValueError("bad netstring at %d" % pos)
        return body, colon + 2 + n
    out = []
    pos = 0
    while pos < len(data):
        entry, pos = ns(data, pos)
        p = 0
        fields = []
        for _ in range(4):
            f, p = ns(entry, p)
            fields.append(f)
        if p != len(entry):
            raise ValueError("trailing bytes in directory entry")
        out.append(tuple(fields))
    return out
