"""setup_cmd: checks the harness's trusted base.
1. RangeMap shim vs a per-integer dict: every history of <= 2 operations over offsets 0..7.
2. The virtual reactor is the global reactor and time.time is virtual.
"""
import itertools
import sys
from . import boot


def rangemap_selftest():
    from collections_extended import RangeMap
    if "shims" not in sys.modules["collections_extended"].__file__:
        print("selftest: real collections_extended present; shim not used")
        return 0
    U = 8
    ops = [("set", v, a, b) for v in (True, 7) for a in range(U) for b in range(a + 1, U + 1)] + \
          [("delete", None, a, b) for a in range(U) for b in range(a + 1, U + 1)]
    n = 0
    for hist in itertools.product(ops, repeat=2):
        rm, ref = RangeMap(), {}
        for (op, v, a, b) in hist:
            if op == "set":
                rm.set(v, a, b)
                for i in range(a, b):
                    ref[i] = v
            else:
                ok = all(i in ref for i in range(a, b))
                try:
                    rm.delete(a, b)
                    assert ok, hist
                    for i in range(a, b):
                        del ref[i]
                except KeyError:
                    assert not ok, hist
            got = {}
            prev = None
            for r in rm.ranges():
                assert r.start < r.stop
                if prev is not None:
                    assert prev.stop <= r.start
                    assert not (prev.stop == r.start and prev.value == r.value), (hist, "unmerged")
                prev = r
                for i in range(r.start, r.stop):
                    got[i] = r.value
            assert got == ref, (hist, got, ref)
            for a2 in range(U):
                for b2 in range(a2 + 1, U + 1):
                    g = {}
                    for r in rm.ranges(a2, b2):
                        for i in range(r.start, r.stop):
                            g[i] = r.value
                    assert g == {i: x for i, x in ref.items() if a2 <= i < b2}
        n += 1
    print("selftest: RangeMap shim agrees with reference on %d two-operation histories" % n)
    return 0


def main():
    from twisted.internet import reactor
    import time
    assert reactor is boot.R
    t = time.time()
    boot.R.advance(5)
    assert time.time() == t + 5
    rangemap_selftest()
    print("selftest ok")
    return 0


if __name__ == "__main__":
    sys.exit(main())
