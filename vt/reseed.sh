#!/bin/bash
# re-verify filed seeds against the CURRENT /repo HEAD and the current checks:
#   vt/reseed.sh [name ...]      (default: every directory under seeded/)
# For each seed: scratch worktree of /repo HEAD, apply patch.diff, run the property's quick check against
# it (evidence/replay go to a scratch dir), expect exit 1.  Prints one line per seed; removes the worktree.
cd "$(dirname "$0")/.."
HERE=$PWD
NAMES=${@:-$(ls seeded)}
for N in $NAMES; do
  P=$(/venv/bin/python -c "import json,sys; print(json.load(open('seeded/$N/meta.json'))['property'])")
  WT=/tmp/rs-$N
  git -C /repo worktree remove --force $WT >/dev/null 2>&1
  git -C /repo worktree add -q --detach $WT HEAD || { echo "$N worktree-failed"; continue; }
  if ! git -C $WT apply $PWD/seeded/$N/patch.diff 2>/dev/null; then
    echo "$N ($P) patch-does-not-apply"
  else
    S=$(date +%s)
    VERIF_OUT=/tmp/rs-out-$N VERIF_REPO_SRC=$WT/src ./check $P quick > /tmp/rs-$N.log 2>&1; C=$?
    NOTE=""
    if [ $C = 0 ]; then
      # seeds recorded as caught by ANOTHER property's check (meta.json caught_by_property): run those
      for Q in $(/venv/bin/python -c "import json; print(' '.join(q for q in json.load(open('seeded/$N/meta.json')).get('caught_by_property', []) if q != '$P'))"); do
        VERIF_OUT=/tmp/rs-out-$N VERIF_REPO_SRC=$WT/src ./check $Q quick > /tmp/rs-$N.log 2>&1; C=$?
        if [ $C != 0 ]; then NOTE="(caught by $Q)"; break; fi
      done
    fi
    if [ $C = 0 ]; then
      # quiet check: does the change still break the property on today's tree?  (its own demo decides)
      ( cd /tmp && PYTHONPATH=$WT/src:$HERE/shims timeout 600 /venv/bin/python $HERE/seeded/$N/demo.py > /tmp/rs-$N.demo.log 2>&1 ); D=$?
      if [ $D = 0 ]; then NOTE="NEUTRALISED (own demo exits 0 on HEAD+patch: a later fix made the change harmless)"; else NOTE="MISSED (own demo exits $D)"; fi
    fi
    echo "$N ($P) check-exit=$C $(( $(date +%s) - S ))s $(grep -m1 'sig=' /tmp/rs-$N.log) $NOTE"
  fi
  git -C /repo worktree remove --force $WT >/dev/null 2>&1
  rm -rf /tmp/rs-out-$N
done
