"""Maintain known_findings.json from the command line (never used at check run time).

  python -m vt.kf fixed  C07 58ca077 "<sig>" "<what failed>"
  python -m vt.kf known  C29 "<sig>" "<what fails>"
"""
import json
import os
import sys

HERE = os.path.dirname(os.path.dirname(os.path.abspath(__file__)))
PATH = os.path.join(HERE, "known_findings.json")


def main(argv):
    data = json.load(open(PATH))
    kind = argv[0]
    if kind == "fixed":
        prop, commit, sig, what = argv[1:5]
        e = {"property": prop, "status": "fixed", "commit": commit, "signature": sig, "what": what,
             "line": "fixed: property=%s %s %s" % (prop, commit, what)}
    else:
        prop, sig, what = argv[1:4]
        e = {"property": prop, "status": "known", "signature": sig, "what": what,
             "line": "KNOWN-FINDING: property=%s %s" % (prop, what)}
    data["findings"] = [f for f in data["findings"] if not (f["property"] == e["property"] and f["signature"] == e["signature"])]
    data["findings"].append(e)
    data["findings"].sort(key=lambda f: (f["property"], f["status"], f["signature"]))
    json.dump(data, open(PATH, "w"), indent=1)
    print(e["line"])


if __name__ == "__main__":
    main(sys.argv[1:])
