"""Minimal stand-in for collections_extended.RangeMap (the only symbol tahoe uses).

Only loaded when the real package is absent (this directory is appended LAST on
sys.path).  Semantics follow collections_extended 2.x: half-open ranges, adjacent
ranges with equal values are merged, ranges(start, stop) clips, delete() raises
KeyError when part of the range is unmapped, set()/delete() raise ValueError when
stop <= start.  Checked exhaustively against a per-integer dict by vt/selftest.py.
"""
from collections import namedtuple

MappedRange = namedtuple("MappedRange", ["start", "stop", "value"])


class RangeMap(object):
    def __init__(self):
        self._r = []  # sorted, disjoint, non-mergeable [start, stop, value]

    @staticmethod
    def _chk(start, stop):
        if start is None or stop is None:
            raise ValueError("shim RangeMap needs finite bounds")
        if stop <= start:
            raise ValueError("stop must be > start")

    def _cut(self, start, stop):
        out, removed = [], []
        for (a, b, v) in self._r:
            if b <= start or a >= stop:
                out.append([a, b, v])
                continue
            if a < start:
                out.append([a, start, v])
            removed.append((max(a, start), min(b, stop)))
            if b > stop:
                out.append([stop, b, v])
        out.sort()
        self._r = out
        return removed

    def _merge(self):
        out = []
        for r in sorted(self._r):
            if out and out[-1][1] == r[0] and out[-1][2] == r[2]:
                out[-1][1] = r[1]
            else:
                out.append(list(r))
        self._r = out

    def set(self, value, start=None, stop=None):
        self._chk(start, stop)
        self._cut(start, stop)
        self._r.append([start, stop, value])
        self._merge()

    def delete(self, start=None, stop=None):
        self._chk(start, stop)
        covered = sum(b - a for (a, b, v) in self._r
                      for (a, b) in [(max(a, start), min(b, stop))] if b > a)
        if covered != stop - start:
            raise KeyError((start, stop))
        self._cut(start, stop)
        self._merge()

    def ranges(self, start=None, stop=None):
        for (a, b, v) in list(self._r):
            if start is not None:
                a = max(a, start)
            if stop is not None:
                b = min(b, stop)
            if b > a:
                yield MappedRange(a, b, v)

    def __iter__(self):
        return self.ranges()

    def __len__(self):
        return len(self._r)

    def __repr__(self):
        return "RangeMap(%r)" % (self._r,)
