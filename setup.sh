#!/bin/sh
# Offline set-up: nothing to build; verify the toolchain and the RangeMap shim.
cd "$(dirname "$0")" || exit 1
export PYTHONPATH=/verif:/repo/src PYTHONDONTWRITEBYTECODE=1 PYTHONHASHSEED=0
mkdir -p evidence replay
exec /venv/bin/python -m vt.selftest
